package textparse

import (
	"errors"
	"io"
	"testing"

	"github.com/prometheus/prometheus/model/exemplar"
	"github.com/prometheus/prometheus/model/labels"
)

// Place in model/textparse (package textparse).
// Two classic histograms in one OpenMetrics exposition: the exemplars of the first carry
// timestamps, those of the second do not. The converted second histogram must report its
// exemplars without timestamps.
func TestF10NHCBExemplarTimestampsNotInherited(t *testing.T) {
	input := `# TYPE a histogram
a_bucket{le="1"} 1 # {id="a1"} 0.5 100.0
a_bucket{le="+Inf"} 2 # {id="a2"} 1.5 200.0
a_count 2
a_sum 2
# TYPE b histogram
b_bucket{le="1"} 1 # {id="b1"} 0.25
b_bucket{le="+Inf"} 2 # {id="b2"} 1.25
b_count 2
b_sum 1.5
# EOF
`
	var p Parser = NewOpenMetricsParser([]byte(input), labels.NewSymbolTable())
	p = NewNHCBParser(p, labels.NewSymbolTable(), false, false)
	got := map[string][]exemplar.Exemplar{}
	for {
		e, err := p.Next()
		if errors.Is(err, io.EOF) {
			break
		}
		if err != nil {
			t.Fatal(err)
		}
		if e != EntryHistogram {
			continue
		}
		m, _, _, _ := p.Histogram()
		for {
			var ex exemplar.Exemplar
			if !p.Exemplar(&ex) {
				break
			}
			got[string(m)] = append(got[string(m)], ex)
		}
	}
	if len(got["a"]) != 2 || len(got["b"]) != 2 {
		t.Fatalf("exemplars: %v", got)
	}
	for _, ex := range got["a"] {
		if !ex.HasTs {
			t.Fatalf("exemplar of a lost its timestamp: %+v", ex)
		}
	}
	for _, ex := range got["b"] {
		if ex.HasTs || ex.Ts != 0 {
			t.Fatalf("exemplar of b inherited a timestamp from a: %+v", ex)
		}
	}
}
