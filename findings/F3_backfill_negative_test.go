package main

// Demonstration of finding F3 (property C50): promtool backfill drops samples with negative
// timestamps that are not block aligned, because the first block start is computed with
// truncating division (rounds towards zero, i.e. *up* for negative times).
// Failed obligation: C50/promtool.createBlocks#assert@stmt[mint = blockDuration *:first-block-not-after-first-sample]
// Run (from /repo): go test -overlay <ov.json> -vet=off -run TestVerifF3 ./cmd/promtool/

import (
	"math"
	"testing"
	"time"

	"github.com/prometheus/prometheus/tsdb"
)

func TestVerifF3(t *testing.T) {
	input := []byte("# HELP m help\n# TYPE m gauge\nm{l=\"a\"} 1 -7201.5\nm{l=\"a\"} 2 -1\nm{l=\"a\"} 3 10\n# EOF\n")
	dir := t.TempDir()
	if err := backfill(5000, input, dir, false, true, 2*time.Hour, nil); err != nil {
		t.Fatal(err)
	}
	db, err := tsdb.Open(dir, nil, nil, tsdb.DefaultOptions(), nil)
	if err != nil {
		t.Fatal(err)
	}
	defer db.Close()
	q, err := db.Querier(math.MinInt64, math.MaxInt64)
	if err != nil {
		t.Fatal(err)
	}
	defer q.Close()
	got := queryAllSeries(t, q, 0, 0)
	var ts []int64
	for _, s := range got {
		ts = append(ts, s.Timestamp)
	}
	if len(got) != 3 {
		t.Fatalf("backfilled blocks contain %d of the 3 input samples, timestamps %v (want -7201500, -1000, 10000)", len(got), ts)
	}
}
