package chunkenc

import "testing"

func TestFindingF5XORResumeAfterFromData(t *testing.T) {
	type s struct {
		t int64
		v float64
	}
	in := []s{{1000, 1}, {1010, 2}, {1025, 3.5}, {1050, 3.5}, {1098, 6}, {1100, 7.5}, {1126, 9}, {1150, 9}, {1200, -1}, {1300, 4}}
	for cut := 1; cut < len(in); cut++ {
		c := NewXORChunk()
		app, _ := c.Appender()
		for _, x := range in[:cut] {
			app.Append(0, x.t, x.v)
		}
		d := append([]byte(nil), c.Bytes()...)
		c2, _ := FromData(EncXOR, d)
		app2, err := c2.Appender()
		if err != nil {
			t.Fatal(err)
		}
		for _, x := range in[cut:] {
			app2.Append(0, x.t, x.v)
		}
		it := c2.Iterator(nil)
		i := 0
		for it.Next() == ValFloat {
			ts, v := it.At()
			if i >= len(in) || ts != in[i].t || v != in[i].v {
				t.Errorf("cut %d sample %d: got %d:%v", cut, i, ts, v)
				break
			}
			i++
		}
		if i != len(in) {
			t.Errorf("cut %d: read %d of %d", cut, i, len(in))
		}
	}
}
