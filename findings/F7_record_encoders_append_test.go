package record

import (
	"testing"

	"github.com/stretchr/testify/require"

	"github.com/prometheus/prometheus/model/histogram"
	"github.com/prometheus/prometheus/tsdb/tsdbutil"
)

// F7: the record encoders append to the caller's buffer. wlog.Checkpoint batches several records
// in one buffer and keeps slices into it, so an encoder must never shorten or rewrite what the
// buffer already holds.
func TestFindingF7HistogramEncodersOnlyAppend(t *testing.T) {
	prefix := []byte{0xde, 0xad, 0xbe, 0xef, 0x01, 0x02, 0x03}
	var enc Encoder

	t.Run("int", func(t *testing.T) {
		hs := tsdbutil.GenerateTestCustomBucketsHistograms(2)
		in := []RefHistogramSample{{Ref: 1, T: 10, H: hs[0]}, {Ref: 2, T: 20, H: hs[1]}}
		b := append(make([]byte, 0, 1024), prefix...)
		out, leftover := enc.HistogramSamples(in, b)
		require.Len(t, leftover, 2)
		require.GreaterOrEqual(t, len(out), len(prefix), "the caller's buffer was truncated")
		require.Equal(t, prefix, out[:len(prefix)])
		// What Checkpoint does next: the custom-bucket record goes after what the buffer held.
		out2 := enc.CustomBucketsHistogramSamples(leftover, out)
		require.Equal(t, prefix, out2[:len(prefix)], "an earlier record in the batch buffer was overwritten")
	})
	t.Run("float", func(t *testing.T) {
		hs := tsdbutil.GenerateTestCustomBucketsFloatHistograms(2)
		in := []RefFloatHistogramSample{{Ref: 1, T: 10, FH: hs[0]}, {Ref: 2, T: 20, FH: hs[1]}}
		b := append(make([]byte, 0, 1024), prefix...)
		out, leftover := enc.FloatHistogramSamples(in, b)
		require.Len(t, leftover, 2)
		require.GreaterOrEqual(t, len(out), len(prefix), "the caller's buffer was truncated")
		require.Equal(t, prefix, out[:len(prefix)])
		out2 := enc.CustomBucketsFloatHistogramSamples(leftover, out)
		require.Equal(t, prefix, out2[:len(prefix)], "an earlier record in the batch buffer was overwritten")
	})
	_ = histogram.CustomBucketsSchema
}
