package prometheusremotewrite

import (
	"testing"

	"github.com/prometheus/prometheus/model/histogram"
)

// Place in storage/remote/otlptranslator/prometheusremotewrite (package prometheusremotewrite).
// Merging 2^scaleDown source buckets into one target bucket: each target bucket must hold the
// sum of the source buckets it covers, also when an empty target bucket precedes it.
func TestF11DownscaleAfterEmptyTargetBucket(t *testing.T) {
	// scaleDown 1, offset 0: source buckets 0,1 -> target 1; 2,3 -> target 2; 4,5 -> target 3.
	spans, deltas := convertBucketsLayout([]uint64{1, 1, 0, 0, 3, 4}, 0, 1, true)
	got := map[int32]int64{}
	idx := int32(0)
	var cur int64
	di := 0
	for _, s := range spans {
		idx += s.Offset
		for k := uint32(0); k < s.Length; k++ {
			cur += deltas[di]
			di++
			if cur != 0 {
				got[idx] = cur
			}
			idx++
		}
	}
	want := map[int32]int64{1: 2, 3: 7}
	if len(got) != len(want) || got[1] != want[1] || got[3] != want[3] {
		t.Fatalf("target buckets: got %v, want %v (spans %v deltas %v)", got, want, spans, deltas)
	}
	_ = histogram.Span{}
}
