package textparse

import (
	"errors"
	"io"
	"testing"

	"github.com/prometheus/prometheus/model/exemplar"
	"github.com/prometheus/prometheus/model/labels"
)

// Place in model/textparse (package textparse).
// A classic histogram that cannot be converted (its bucket counts are not cumulative) is followed
// by a valid one: the converted valid histogram must carry its own exemplars.
func TestF13NHCBExemplarsAfterFailedConversion(t *testing.T) {
	input := `# TYPE bad histogram
bad_bucket{le="1"} 5 # {id="bad1"} 0.5 1.0
bad_bucket{le="2"} 3 # {id="bad2"} 1.5 2.0
bad_bucket{le="+Inf"} 3
bad_count 3
bad_sum 2
# TYPE good histogram
good_bucket{le="1"} 1 # {id="good1"} 0.25
good_bucket{le="+Inf"} 2 # {id="good2"} 1.25
good_count 2
good_sum 1.5
# EOF
`
	var p Parser = NewOpenMetricsParser([]byte(input), labels.NewSymbolTable())
	p = NewNHCBParser(p, labels.NewSymbolTable(), false, false)
	got := map[string][]string{}
	for {
		e, err := p.Next()
		if errors.Is(err, io.EOF) {
			break
		}
		if err != nil {
			t.Fatal(err)
		}
		if e != EntryHistogram {
			continue
		}
		m, _, _, _ := p.Histogram()
		for {
			var ex exemplar.Exemplar
			if !p.Exemplar(&ex) {
				break
			}
			got[string(m)] = append(got[string(m)], ex.Labels.Get("id"))
		}
	}
	g := got["good"]
	if len(g) != 2 || g[0] != "good1" || g[1] != "good2" {
		t.Fatalf("exemplars of the converted histogram 'good': got %v, want [good1 good2] (all: %v)", g, got)
	}
}
