package tombstones

// Demonstration of finding F1 (property C20): Intervals.Add indexes out of range when the new
// interval ends at math.MaxInt64 and does not start before the first stored interval.
// Failed obligation: C20/tombstones.(Intervals).Add#bounds[in[mini].Maxt = max(n.Maxt, in[maxi+mini-1].Maxt)]~2
// Run (from /repo): go test -overlay <ov.json> -vet=off -run TestVerifF1 ./tsdb/tombstones/

import (
	"math"
	"testing"
)

func TestVerifF1(t *testing.T) {
	in := Intervals{{Mint: 1, Maxt: 2}, {Mint: 10, Maxt: 20}}
	got := in.Add(Interval{Mint: 15, Maxt: math.MaxInt64}) // panics before the fix: index out of range [2] with length 2
	want := Intervals{{Mint: 1, Maxt: 2}, {Mint: 10, Maxt: math.MaxInt64}}
	if len(got) != len(want) || got[0] != want[0] || got[1] != want[1] {
		t.Fatalf("got %v want %v", got, want)
	}
}
