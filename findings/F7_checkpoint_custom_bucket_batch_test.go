package wlog

import (
	"testing"

	"github.com/prometheus/common/promslog"
	"github.com/stretchr/testify/require"

	"github.com/prometheus/prometheus/model/histogram"
	"github.com/prometheus/prometheus/model/labels"
	"github.com/prometheus/prometheus/tsdb/chunks"
	"github.com/prometheus/prometheus/tsdb/record"
	"github.com/prometheus/prometheus/util/compression"
)

// F7 end to end: a checkpoint must keep every record that is not older than mint, also when a
// V2 histogram record holds only custom-bucket histograms and the checkpoint is written with the
// V1 encoding (start-timestamp storage switched off after the samples were written).
func TestFindingF7CheckpointKeepsRecordsAroundCustomBucketOnlyBatch(t *testing.T) {
	cbH := &histogram.Histogram{
		Count: 5, ZeroCount: 2, ZeroThreshold: 0.001, Sum: 18.4, Schema: histogram.CustomBucketsSchema,
		PositiveSpans:   []histogram.Span{{Offset: 0, Length: 2}, {Offset: 1, Length: 2}},
		PositiveBuckets: []int64{1, 1, -1, 0},
		CustomValues:    []float64{0, 1, 2, 3, 4},
	}
	dir := t.TempDir()
	encV2 := record.Encoder{EnableSTStorage: true}
	w, err := NewSize(nil, nil, dir, 128*1024, compression.None)
	require.NoError(t, err)
	require.NoError(t, w.Log(encV2.Series([]record.RefSeries{
		{Ref: 0, Labels: labels.FromStrings("a", "float")},
		{Ref: 1, Labels: labels.FromStrings("a", "cb")},
	}, nil)))
	require.NoError(t, w.Log(encV2.Samples([]record.RefSample{{Ref: 0, T: 1000, V: 1}, {Ref: 0, T: 2000, V: 2}}, nil)))
	histRec, leftover := encV2.HistogramSamples([]record.RefHistogramSample{{Ref: 1, T: 1000, H: cbH}, {Ref: 1, T: 2000, H: cbH}}, nil)
	require.Empty(t, leftover)
	require.NoError(t, w.Log(histRec))
	require.NoError(t, w.Close())

	_, last, err := Segments(w.Dir())
	require.NoError(t, err)
	w, err = NewSize(nil, nil, dir, 128*1024, compression.None)
	require.NoError(t, err)
	t.Cleanup(func() { w.Close() })

	_, err = Checkpoint(promslog.NewNopLogger(), w, 0, last, func(chunks.HeadSeriesRef) bool { return true }, 0, false)
	require.NoError(t, err)

	sr, err := NewSegmentsReader(CheckpointDir(w.Dir(), last))
	require.NoError(t, err)
	t.Cleanup(func() { sr.Close() })
	dec := record.NewDecoder(labels.NewSymbolTable(), promslog.NewNopLogger())
	r := NewReader(sr)
	var series, floats, hists int
	for r.Next() {
		rec := r.Record()
		switch typ := dec.Type(rec); typ {
		case record.Series:
			s, err := dec.Series(rec, nil)
			require.NoError(t, err)
			series += len(s)
		case record.Samples, record.SamplesV2:
			s, err := dec.Samples(rec, nil)
			require.NoError(t, err)
			floats += len(s)
		case record.HistogramSamples, record.CustomBucketsHistogramSamples, record.HistogramSamplesV2:
			hs, err := dec.HistogramSamples(rec, nil)
			require.NoError(t, err)
			hists += len(hs)
		default:
			t.Fatalf("unexpected record type %v (len %d) in the checkpoint", typ, len(rec))
		}
	}
	require.NoError(t, r.Err())
	require.Equal(t, 2, series, "series records")
	require.Equal(t, 2, floats, "float samples")
	require.Equal(t, 2, hists, "custom-bucket histogram samples")
}
