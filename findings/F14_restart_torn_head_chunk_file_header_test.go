package chunks

import (
	"fmt"
	"os"
	"path/filepath"
	"testing"

	"github.com/stretchr/testify/require"

	"github.com/prometheus/prometheus/tsdb/chunkenc"
)

// Place in tsdb/chunks (package chunks).
// A crash can leave the newest head chunk file torn at any offset. Restart must drop the torn
// tail (here: a file that ends inside its 8-byte header) and serve the chunks of the older files.
func TestF14RestartWithNewestFileTornInsideItsHeader(t *testing.T) {
	for size := 0; size <= 9; size++ {
		t.Run(fmt.Sprintf("newest_file_has_%d_bytes", size), func(t *testing.T) {
			dir := t.TempDir()
			hrw, err := NewChunkDiskMapper(nil, dir, chunkenc.NewPool(), DefaultWriteBufferSize, DefaultWriteQueueSize)
			require.NoError(t, err)
			chk := chunkenc.NewXORChunk()
			app, err := chk.Appender()
			require.NoError(t, err)
			app.Append(0, 1, 1)
			awaitCb := make(chan struct{})
			ref := hrw.WriteChunk(1, 1, 1, chk, false, func(err error) {
				require.NoError(t, err)
				close(awaitCb)
			})
			<-awaitCb
			hrw.CutNewFile()
			// a second chunk so that the second file exists
			awaitCb2 := make(chan struct{})
			hrw.WriteChunk(1, 2, 2, chk, false, func(err error) {
				require.NoError(t, err)
				close(awaitCb2)
			})
			<-awaitCb2
			require.NoError(t, hrw.Close())

			files, err := os.ReadDir(dir)
			require.NoError(t, err)
			require.Len(t, files, 2)
			require.NoError(t, os.Truncate(filepath.Join(dir, files[1].Name()), int64(size)))

			hrw, err = NewChunkDiskMapper(nil, dir, chunkenc.NewPool(), DefaultWriteBufferSize, DefaultWriteQueueSize)
			require.NoError(t, err, "restart with the newest file torn at offset %d", size)
			defer hrw.Close()
			n := 0
			require.NoError(t, hrw.IterateAllChunks(func(HeadSeriesRef, ChunkDiskMapperRef, int64, int64, uint16, chunkenc.Encoding, bool) error {
				n++
				return nil
			}))
			require.GreaterOrEqual(t, n, 1)
			got, err := hrw.Chunk(ref)
			require.NoError(t, err)
			require.Equal(t, chk.Bytes(), got.Bytes())
		})
	}
}
