package textparse

import (
	"errors"
	"io"
	"testing"

	"github.com/prometheus/prometheus/model/labels"
)

// Place in model/textparse (package textparse). Fails before fix commit 8500ebe54d, passes after.
// Two label sets of one classic histogram family with different explicit timestamps: each
// converted histogram must carry the timestamp of its own series.
func TestF9NHCBTimestampOfEmittedHistogram(t *testing.T) {
	input := `# TYPE a histogram
a_bucket{le="1"} 1 1000
a_bucket{le="+Inf"} 2 1000
a_count 2 1000
a_sum 3 1000
a_bucket{x="y",le="1"} 4 2000
a_bucket{x="y",le="+Inf"} 5 2000
a_count{x="y"} 5 2000
a_sum{x="y"} 6 2000
`
	p := NewPromParser([]byte(input), labels.NewSymbolTable(), false)
	p = NewNHCBParser(p, labels.NewSymbolTable(), false, false)
	var got []int64
	var names []string
	for {
		e, err := p.Next()
		if errors.Is(err, io.EOF) {
			break
		}
		if err != nil {
			t.Fatal(err)
		}
		if e != EntryHistogram {
			continue
		}
		m, ts, _, _ := p.Histogram()
		if ts == nil {
			t.Fatalf("histogram %s without timestamp", m)
		}
		got = append(got, *ts)
		names = append(names, string(m))
	}
	if len(got) != 2 || got[0] != 1000 || got[1] != 2000 {
		t.Fatalf("timestamps of %v: got %v, want [1000 2000]", names, got)
	}
}
