package tsdb

// Demonstration of finding F2 (property C20): Head.Delete records an inverted interval for a
// series whose samples lie entirely outside the (head-clamped) requested range.
// Failed obligation: C20/tsdb.(*Head).Delete@loop1#assert@stmt[stones = append(stones:stone-interval-not-inverted]
// Run (from /repo): go test -overlay <ov.json> -vet=off -run TestVerifF2 ./tsdb/

import (
	"context"
	"testing"

	"github.com/prometheus/prometheus/model/labels"
	"github.com/prometheus/prometheus/storage"
	"github.com/prometheus/prometheus/tsdb/tombstones"
)

func TestVerifF2(t *testing.T) {
	db := newTestDB(t)
	app := db.Appender(context.Background())
	la, lb := labels.FromStrings("job", "x", "s", "a"), labels.FromStrings("job", "x", "s", "b")
	for ts := int64(0); ts <= 32; ts++ {
		if _, err := app.Append(0, la, ts, 1); err != nil {
			t.Fatal(err)
		}
	}
	for ts := int64(0); ts <= 100; ts++ {
		if _, err := app.Append(0, lb, ts, 1); err != nil {
			t.Fatal(err)
		}
	}
	if err := app.Commit(); err != nil {
		t.Fatal(err)
	}
	m := labels.MustNewMatcher(labels.MatchEqual, "job", "x")
	for _, r := range [][2]int64{{20, 30}, {50, 60}, {35, 40}} {
		if err := db.Delete(context.Background(), r[0], r[1], m); err != nil {
			t.Fatal(err)
		}
	}
	tr, err := db.Head().Tombstones()
	if err != nil {
		t.Fatal(err)
	}
	bad := 0
	tr.Iter(func(ref storage.SeriesRef, ivs tombstones.Intervals) error {
		for i, iv := range ivs {
			if iv.Mint > iv.Maxt {
				t.Errorf("series %d: inverted interval %v in %v", ref, iv, ivs)
				bad++
			}
			if i > 0 && ivs[i-1].Maxt+1 >= iv.Mint {
				t.Errorf("series %d: intervals not sorted / not disjoint / adjacent: %v", ref, ivs)
				bad++
			}
		}
		return nil
	})
	if bad == 0 {
		t.Log("tombstones are well formed")
	}
}
