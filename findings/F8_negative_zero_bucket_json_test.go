package v1

import (
	"strings"
	"testing"

	"github.com/prometheus/prometheus/model/histogram"
	"github.com/prometheus/prometheus/model/labels"
	"github.com/prometheus/prometheus/promql"
)

// Place in web/api/v1 (package v1). Fails before fix commit (zero bucket missing), passes after.
func TestF8NegativeZeroBucketInJSON(t *testing.T) {
	a := &histogram.FloatHistogram{Schema: 0, ZeroThreshold: 0.001, ZeroCount: 1, Count: 3, Sum: 3, PositiveSpans: []histogram.Span{{Offset: 0, Length: 1}}, PositiveBuckets: []float64{2}}
	b := &histogram.FloatHistogram{Schema: 0, ZeroThreshold: 0.001, ZeroCount: 4, Count: 5, Sum: 1, PositiveSpans: []histogram.Span{{Offset: 0, Length: 1}}, PositiveBuckets: []float64{1}}
	d, _, _, err := a.Copy().Sub(b)
	if err != nil {
		t.Fatal(err)
	}
	if d.ZeroCount != -3 {
		t.Fatalf("zero count %v", d.ZeroCount)
	}
	resp := &Response{Status: statusSuccess, Data: &QueryData{ResultType: "vector", Result: promql.Vector{{Metric: labels.FromStrings("__name__", "foo"), T: 1000, H: d}}}}
	out, err := JSONCodec{}.Encode(resp)
	if err != nil {
		t.Fatal(err)
	}
	t.Log(string(out))
	// the zero bucket [-0.001, 0.001] holds -3 observations: it is not empty and must be in the output
	if !strings.Contains(string(out), `[3,"-0.001","0.001","-3"]`) {
		t.Fatalf("zero bucket with count -3 missing from %s", out)
	}
}
