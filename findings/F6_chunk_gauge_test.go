package tsdb

import (
	"context"
	"testing"

	prom_testutil "github.com/prometheus/client_golang/prometheus/testutil"
	"github.com/stretchr/testify/require"

	"github.com/prometheus/prometheus/model/labels"
	"github.com/prometheus/prometheus/tsdb/chunks"
	"github.com/prometheus/prometheus/tsdb/tsdbutil"
	"github.com/prometheus/prometheus/util/compression"
)

// F6: the head chunk gauge must equal the number of chunks held by the head's series, also when
// a transaction contains a sample that creates a chunk followed by one that is rejected at commit.
func TestFindingF6ChunkGaugeAfterRejectedSampleInSameCommit(t *testing.T) {
	for _, kind := range []string{"float", "histogram", "floathistogram"} {
		t.Run(kind, func(t *testing.T) {
			h, _ := newTestHead(t, 1000, compression.None, false)
			lbls := labels.FromStrings("a", "b")
			app := h.Appender(context.Background())
			var err error
			switch kind {
			case "float":
				_, err = app.Append(0, lbls, 100, 1)
				require.NoError(t, err)
				_, err = app.Append(0, lbls, 50, 2) // accepted now (series still empty), out of order at commit
			case "histogram":
				hs := tsdbutil.GenerateTestHistograms(2)
				_, err = app.AppendHistogram(0, lbls, 100, hs[0], nil)
				require.NoError(t, err)
				_, err = app.AppendHistogram(0, lbls, 50, hs[1], nil)
			case "floathistogram":
				hs := tsdbutil.GenerateTestFloatHistograms(2)
				_, err = app.AppendHistogram(0, lbls, 100, nil, hs[0])
				require.NoError(t, err)
				_, err = app.AppendHistogram(0, lbls, 50, nil, hs[1])
			}
			require.NoError(t, err)
			require.NoError(t, app.Commit())

			recount := 0
			for _, s := range h.series.series {
				for _, ms := range s {
					ms.Lock()
					recount += len(ms.mmappedChunks) + int(ms.headChunkCount.Load())
					ms.Unlock()
				}
			}
			_ = chunks.HeadSeriesRef(0)
			require.Equal(t, float64(recount), prom_testutil.ToFloat64(h.metrics.chunks), "prometheus_tsdb_head_chunks vs recount")
		})
	}
}
