package promql

import (
	"math"
	"testing"

	"github.com/prometheus/prometheus/model/histogram"
	"github.com/prometheus/prometheus/promql/parser/posrange"
)

// Place in promql (package promql).
// A native histogram that has observed NaN (Sum is NaN; Count exceeds the bucket population):
// the quantile must lie inside the bucket that holds the requested rank and must not decrease
// when q grows.
func TestF12QuantileOfHistogramWithNaNObservations(t *testing.T) {
	h := &histogram.FloatHistogram{
		Schema:          0,
		Count:           4, // 3 observations in buckets + 1 NaN observation
		Sum:             math.NaN(),
		PositiveSpans:   []histogram.Span{{Offset: 0, Length: 3}},
		PositiveBuckets: []float64{1, 1, 1}, // (0.5,1], (1,2], (2,4]
	}
	prev := math.Inf(-1)
	for _, q := range []float64{0, 0.1, 0.2, 0.25, 0.3, 0.4, 0.5, 0.6, 0.7, 0.75} {
		got, _ := HistogramQuantile(q, h, "m", posrange.PositionRange{})
		rank := q * h.Count
		var lo, hi float64
		switch {
		case rank <= 1:
			lo, hi = 0.5, 1
		case rank <= 2:
			lo, hi = 1, 2
		default:
			lo, hi = 2, 4
		}
		if got < lo || got > hi {
			t.Errorf("q=%v (rank %v): got %v, outside the rank's bucket (%v, %v]", q, rank, got, lo, hi)
		}
		if got < prev {
			t.Errorf("q=%v: %v is below the value %v for a smaller q", q, got, prev)
		}
		prev = got
	}
}
