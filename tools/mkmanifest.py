#!/usr/bin/env python3
"""Regenerate /verif/MANIFEST.json from props.json (claimed checks) and the not-applicable table."""
import json, os, subprocess

V = os.path.dirname(os.path.dirname(os.path.abspath(__file__)))
props = [json.loads(l) for l in open(os.path.join(V, "properties.jsonl"))]
plans = json.load(open(os.path.join(V, "props.json")))

NA = {
 "C01": "whole-history equivalence of DB queries with a model: quantifies over operation histories across head, WAL, blocks and restarts; no single-call contract expresses it (its sequential kernels are covered under C02, C06, C20).",
 "C03": "crash points: the property is about process death between syscalls; contracts have no notion of partial execution or durable state.",
 "C04": "damaged on-disk data: byte-level faults against CRC/IO code paths and repair procedures; the outcome depends on file contents and the filesystem, not on a function contract.",
 "C07": "compaction preserves the union: a pipeline through index/chunk readers, merge iterators and writers behind interfaces and files; no contract within reach.",
 "C17": "regex optimisation vs regexp semantics needs a string/regular-language theory for regexp/syntax ASTs; the verifier's string model is opaque by design.",
 "C19": "merge iterators: container/heap over interface-typed iterators with closures; the invariant is over heap-ordered iterator states of unknown implementations.",
 "C23": "snapshot restart vs WAL restart: a history/restart equivalence over files.",
 "C26": "print/parse round trip: yacc-generated parser and lexer over strings.",
 "C27": "range query vs instant queries: equivalence of two whole evaluations of arbitrary expressions.",
 "C29": "aggregation/binary-operator semantics: label-set algebra (strings, hashing) and floating-point sums 'up to rounding'; no exact contract.",
 "C31": "histogram arithmetic: generic bucket iterators plus compensated floating-point addition; the oracle is 'up to rounding'.",
 "C33": "whole-engine panic-freedom over ~5000 lines with caller-history preconditions plus a concurrency claim; a per-function panic sweep would be a different, much weaker statement.",
 "C35": "exposition parsers: lex-generated scanners over bytes/strings; cross-format agreement needs the external encoder.",
 "C37": "scrape loop histories against a recording appender: history + parser + cache maps keyed by strings.",
 "C38": "relabeling: regex and string templates (opaque strings in this verifier).",
 "C39": "label-set implementations: string packing in three build variants; strings are opaque in this verifier.",
 "C40": "remote-write delivery under resharding and retries: schedules and fault sequences (concurrency), outside sequential contracts.",
 "C41": "remote-write receiver: protobuf decoding, label validation (strings), real head; no contract within reach.",
 "C42": "remote read vs local query: codec + streaming over interfaces and protobuf.",
 "C45": "recording rules over histories with a real storage and reloads; the claim is about stored contents over time.",
 "C47": "service discovery convergence: schedules of goroutines and channels.",
 "C49": "configuration print/load: YAML marshalling of large struct graphs through reflection.",
 "C53": "read-only open vs read-write open and files unchanged: filesystem histories.",
}
PENDING = "contract planned in DESIGN.md section 11 not completed in this build; not claimed"

checks, na = [], []
for p in props:
    pid = p["id"]
    if pid in plans:
        pl = plans[pid]
        level = pl.get("level", "proof")
        checks.append({
            "property_id": pid,
            "quick_cmd": f"bin/govc check --prop {pid} --tier quick",
            "thorough_cmd": f"bin/govc check --prop {pid} --tier thorough",
            "evidence_file": f"/verif/evidence/{pid}.json",
            "replay_cmd_template": "bin/govc replay {path}",
            "engine": "govc",
            "level_claimed": {
                "category": level,
                "text": pl["claim"],
                "design_ref": pl.get("design_ref", "DESIGN.md section 11"),
            },
            "level_note": pl.get("note", "Trusted: govc's SSA-to-SMT semantics, go/ssa, the SMT solvers, sequential semantics (no concurrency), callees used by contract or havoc as listed in the evidence file; unverified remainder of the property: " + pl.get("unverified", "")),
            "technique": pl.get("technique", "contract-based deductive verification: weakest-precondition VCs over go/ssa of the real functions, //@ contracts, discharged by z3/cvc5"),
        })
    else:
        na.append({"property_id": pid, "reason": NA.get(pid, PENDING)})

hooks = subprocess.run(["git", "-C", "/repo", "log", "--format=%H %s"], capture_output=True, text=True).stdout.splitlines()
src = [l.split()[0] for l in hooks if " verif " in " " + l.split(" ", 1)[1] + " " or l.split(" ", 1)[1].startswith("verif")]
m = {
 "version": 1,
 "setup_cmd": "cd /verif/govc && GOPROXY=off GOFLAGS=-mod=mod GOTOOLCHAIN=auto go build -o /verif/bin/govc .",
 "hooks": {
  "guard": "verif",
  "enable": "go build -tags verif (files internal/verifspec/*.go, */zz_verif_contracts.go, */zz_verif_lemmas.go carry //go:build verif; contracts are comment-only)",
  "baseline_off_cmd": "cd /repo && GOPROXY=off go test -vet=off -count=1 -timeout 25m ./...",
  "source_commits": src,
  "add_only": True,
 },
 "engines": [{
  "name": "govc",
  "path": "/verif/govc",
  "serves_properties": sorted(plans.keys()),
  "kind_free_text": "self-written verification-condition generator for Go: go/packages + go/ssa front end, guarded-SSA encoding with component heap, //@ contracts (requires/ensures/modifies/loop invariants/loop-body contracts/cut assertions/lemma harnesses), obligations discharged by a z3 4.8 / z3 5.1 / cvc5 race",
 }],
 "checks": checks,
 "not_applicable": na,
 "notes": "See DESIGN.md. Known findings are listed in known_findings.json. Exit codes of bin/govc check: 0 all obligations discharged, 1 violation (VIOLATION line), 2 undecided/tool error (no VIOLATION line).",
}
json.dump(m, open(os.path.join(V, "MANIFEST.json"), "w"), indent=1)
print("checks:", len(checks), "not_applicable:", len(na), "hook commits:", len(src))
