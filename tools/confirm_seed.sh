#!/bin/bash
# confirm_seed.sh <id> <worktree> <pkgdir> <demo-file-name> <test-regex> [extra test pkgs...]
# Confirms a seeded change in its scratch worktree: demo fails with the patch, passes without it,
# the package's existing tests pass with the patch. Then stores it under /verif/seeded/<id>/.
set -u
id=$1; wt=$2; pkg=$3; demo=$4; rx=$5; shift 5
cd "$wt" || exit 2
export GOPROXY=off
git checkout -q -- . 2>/dev/null
cp SEED/demo_test.go "$pkg/$demo"
echo "== demo WITHOUT change (expect pass)"
go test -vet=off -count=1 -run "$rx" "./$pkg/" > /tmp/seed_$id.without.log 2>&1; rc_without=$?
tail -3 /tmp/seed_$id.without.log
git apply SEED/patch.diff || { echo "patch does not apply"; rm -f "$pkg/$demo"; exit 2; }
echo "== build WITH change"
go build ./... > /tmp/seed_$id.build.log 2>&1; rc_build=$?
echo "== demo WITH change (expect fail)"
go test -vet=off -count=1 -run "$rx" "./$pkg/" > /tmp/seed_$id.with.log 2>&1; rc_with=$?
tail -5 /tmp/seed_$id.with.log
rm -f "$pkg/$demo"
echo "== existing tests WITH change: $*"
go test -vet=off -count=1 -timeout 25m ${SEED_SKIP:+-skip "$SEED_SKIP"} "$@" > /tmp/seed_$id.suite.log 2>&1; rc_suite=$?
grep -E "^(ok|FAIL|---)" /tmp/seed_$id.suite.log | grep -v "^ok" | head
git checkout -q -- .
echo "RESULT id=$id without=$rc_without build=$rc_build with=$rc_with suite=$rc_suite"
if [ $rc_without -eq 0 ] && [ $rc_build -eq 0 ] && [ $rc_with -ne 0 ]; then
  mkdir -p /verif/seeded/$id
  cp SEED/patch.diff /verif/seeded/$id/patch.diff
  cp SEED/demo_test.go /verif/seeded/$id/demo_test.go
  cp SEED/README.md /verif/seeded/$id/README.agent.md
  echo "stored in /verif/seeded/$id (suite rc=$rc_suite)"
fi
