#!/bin/bash
# run every claimed check (quick tier) and summarise
cd /verif
for p in $(python3 -c "import json; print(' '.join(sorted(json.load(open('props.json')).keys())))"); do
  out=$(bin/govc check --prop $p "$@" 2>&1); rc=$?
  echo "rc=$rc $(echo "$out" | tail -1)"
  if [ $rc -ne 0 ]; then echo "$out" | grep -E "^(VIOLATION|UNDECIDED|TOOL-ERROR)" | cut -c1-300 | head -5; fi
done
