#!/usr/bin/env python3
"""Run the registered check of each seeded change's property against the change.

For every /verif/seeded/<id>/ (patch.diff + meta.json): require a clean /repo, apply the patch,
run `bin/govc check --prop <property> --no-evidence`, record the outcome in meta.json, and undo
the patch with `git checkout -- .`.  Usage: seed_eval.py [id ...]
"""
import json, os, subprocess, sys, datetime

V = "/verif"
ids = sys.argv[1:] or sorted(os.listdir(f"{V}/seeded"))
st = subprocess.run(["git", "-C", "/repo", "status", "--porcelain", "--untracked-files=no"], capture_output=True, text=True).stdout.strip()
if st:
    print("refusing: /repo has uncommitted changes to tracked files:\n" + st)
    sys.exit(2)
for sid in ids:
    d = f"{V}/seeded/{sid}"
    mp = f"{d}/meta.json"
    meta = json.load(open(mp)) if os.path.exists(mp) else {}
    prop = meta.get("property") or sid.split("-")[0]
    r = subprocess.run(["git", "-C", "/repo", "apply", f"{d}/patch.diff"], capture_output=True, text=True)
    if r.returncode != 0:
        print(sid, "patch does not apply:", r.stderr.strip()[:200])
        meta["check_result"] = {"applies": False, "error": r.stderr.strip()[:300]}
        json.dump(meta, open(mp, "w"), indent=1)
        continue
    try:
        out = subprocess.run([f"{V}/bin/govc", "check", "--prop", prop, "--no-evidence"], capture_output=True, text=True, cwd=V)
    finally:
        subprocess.run(["git", "-C", "/repo", "checkout", "--", "."])
    viol = [l.split("obligation=")[1].split(" no-failing")[0] for l in out.stdout.splitlines() if l.startswith("VIOLATION") and "obligation=" in l]
    und = [l for l in out.stdout.splitlines() if l.startswith("UNDECIDED") or l.startswith("TOOL-ERROR")]
    meta["property"] = prop
    meta["check_result"] = {
        "applies": True,
        "checked_at": datetime.datetime.now().isoformat(timespec="seconds"),
        "cmd": f"git -C /repo apply seeded/{sid}/patch.diff; bin/govc check --prop {prop}; git -C /repo checkout -- .",
        "exit_code": out.returncode,
        "detected": out.returncode == 1,
        "failed_obligations": viol[:8],
        "undecided": und[:4],
    }
    json.dump(meta, open(mp, "w"), indent=1)
    print(f"{sid}: exit={out.returncode} detected={out.returncode == 1} {viol[:2]}")
