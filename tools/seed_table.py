#!/usr/bin/env python3
"""Regenerate the seeded-change table of DESIGN.md (between the SEED-TABLE markers) from seeded/*/meta.json."""
import json, glob, os, re
V = "/verif"
rows = ["| seed | change | detected | first failing obligation |", "|---|---|---|---|"]
n = det = 0
for f in sorted(glob.glob(f"{V}/seeded/*/meta.json")):
    sid = os.path.basename(os.path.dirname(f))
    m = json.load(open(f))
    cr = m.get("check_result", {})
    d = cr.get("detected")
    n += 1
    det += 1 if d else 0
    ob = (cr.get("failed_obligations") or ["—"])[0]
    ob = ob.split("/", 1)[1] if "/" in ob and ob.startswith("C") else ob
    chg = (m.get("change") or "").replace("|", "\\|")
    if len(chg) > 170:
        chg = chg[:170]
    rows.append(f"| {sid} | {chg} | {'yes' if d else '**no**'} | `{ob}` |")
p = f"{V}/DESIGN.md"
s = open(p).read()
a, b = "<!-- SEED-TABLE-BEGIN -->", "<!-- SEED-TABLE-END -->"
block = a + "\n" + "\n".join(rows) + "\n" + b
if a in s:
    s = re.sub(re.escape(a) + r".*?" + re.escape(b), lambda _: block, s, flags=re.S)
else:
    # first use: replace the existing table (starts at the header row)
    i = s.index("| seed | change | detected | first failing obligation |")
    j = s.find("\n\n", i)
    if j < 0:
        j = len(s)
    s = s[:i] + block + s[j:]
open(p, "w").write(s)
print(f"{n} seeds, {det} detected")
