package main

import (
	"context"
	"encoding/json"
	"flag"
	"fmt"
	"go/types"
	"math/big"
	"os"
	"os/exec"
	"path/filepath"
	"strings"
	"sync"
	"time"
)

// tryGoReplay builds an in-package Go test from a solver model and runs it on the real code.
// Supported: package-level functions (lemma harnesses and plain functions) whose parameters
// are all scalars, for obligation kinds that the real code decides by itself when executed
// (verifspec.Assert in a harness, run-time panics). The test calls the real function with the
// model's inputs; a panic other than an unsatisfied Assume confirms the violation.
func tryGoReplay(prop string, o *Obl, inputs map[string]string, dir, name string) (file string, confirmed bool, note string) {
	e := o.Enc
	fn := e.topFn
	if fn == nil || fn.Signature.Recv() != nil || fn.Parent() != nil || fn.Pkg == nil {
		return "", false, ""
	}
	switch o.Kind {
	case "lemma", "bounds", "div", "unreachable-panic", "nil":
	default:
		return "", false, ""
	}
	var args []string
	needMath := false
	for _, p := range fn.Params {
		b, ok := p.Type().Underlying().(*types.Basic)
		if !ok {
			return "", false, ""
		}
		mv, ok := inputs[p.Name()]
		if !ok {
			return "", false, ""
		}
		lit, ok := goLiteral(mv, b)
		if !ok {
			return "", false, ""
		}
		if strings.HasPrefix(lit, "math.") {
			needMath = true
		}
		args = append(args, fmt.Sprintf("%s(%s)", types.TypeString(p.Type(), types.RelativeTo(fn.Pkg.Pkg)), lit))
	}
	var src strings.Builder
	src.WriteString("//go:build verif\n\npackage " + fn.Pkg.Pkg.Name() + "\n\nimport (\n\t\"testing\"\n")
	if needMath {
		src.WriteString("\t\"math\"\n")
	}
	src.WriteString("\n\t\"github.com/prometheus/prometheus/internal/verifspec\"\n)\n\n")
	src.WriteString("// Replay of obligation " + o.Name + "\n// clause: " + strings.ReplaceAll(o.Src, "\n", " ") + "\n")
	src.WriteString("func TestVerifReplay(t *testing.T) {\n\tdefer func() {\n\t\tif r := recover(); r != nil {\n\t\t\tif _, ok := r.(verifspec.Unsatisfied); ok {\n\t\t\t\tt.Skip(\"model input does not satisfy an Assume\")\n\t\t\t}\n\t\t\tt.Fatalf(\"VIOLATION-CONFIRMED: %v\", r)\n\t\t}\n\t}()\n")
	src.WriteString("\t" + fn.Name() + "(" + strings.Join(args, ", ") + ")\n}\n")
	gofile := filepath.Join(dir, name+"_test.go")
	os.WriteFile(gofile, []byte(src.String()), 0o644)
	pkgDir := filepath.Dir(e.prog.fset.Position(fn.Pos()).Filename)
	meta := map[string]string{"pkg_dir": pkgDir, "test_file": gofile}
	mb, _ := json.Marshal(meta)
	os.WriteFile(gofile+".meta.json", mb, 0o644)
	ok, out := runGoReplay(gofile)
	return gofile, ok, out
}

// goLiteral converts an SMT model value to a Go literal of basic type b.
func goLiteral(mv string, b *types.Basic) (string, bool) {
	mv = strings.TrimSpace(mv)
	switch {
	case b.Info()&types.IsBoolean != 0:
		return mv, mv == "true" || mv == "false"
	case strings.HasPrefix(mv, "#x") || strings.HasPrefix(mv, "#b"):
		base := 16
		if mv[1] == 'b' {
			base = 2
		}
		v, ok := new(big.Int).SetString(mv[2:], base)
		if !ok {
			return "", false
		}
		w := 64
		if base == 16 {
			w = 4 * len(mv[2:])
		} else {
			w = len(mv[2:])
		}
		if b.Info()&types.IsFloat != 0 {
			if w == 32 {
				return fmt.Sprintf("math.Float32frombits(0x%x)", v), true
			}
			return fmt.Sprintf("math.Float64frombits(0x%x)", v), true
		}
		if b.Info()&types.IsUnsigned == 0 && v.Bit(w-1) == 1 {
			v.Sub(v, new(big.Int).Lsh(big.NewInt(1), uint(w)))
		}
		return v.String(), true
	case b.Info()&types.IsInteger != 0:
		s := strings.ReplaceAll(strings.ReplaceAll(strings.ReplaceAll(mv, "(", ""), ")", ""), " ", "")
		if _, ok := new(big.Int).SetString(s, 10); ok {
			return s, true
		}
	}
	return "", false
}

func runGoReplay(gofile string) (bool, string) {
	mb, err := os.ReadFile(gofile + ".meta.json")
	if err != nil {
		return false, "no meta file"
	}
	var meta map[string]string
	json.Unmarshal(mb, &meta)
	pkgDir := meta["pkg_dir"]
	ov := map[string]map[string]string{"Replace": {filepath.Join(pkgDir, "zz_verif_replay_test.go"): gofile}}
	ob, _ := json.Marshal(ov)
	ovFile := gofile + ".overlay.json"
	os.WriteFile(ovFile, ob, 0o644)
	ctx, cancel := context.WithTimeout(context.Background(), 15*time.Minute)
	defer cancel()
	cmd := exec.CommandContext(ctx, "go", "test", "-tags", "verif", "-overlay", ovFile, "-vet=off", "-count=1", "-timeout", "120s", "-run", "^TestVerifReplay$", ".")
	cmd.Dir = pkgDir
	cmd.Env = append(os.Environ(), "GOPROXY=off", "GOFLAGS=", "GOTOOLCHAIN=auto")
	out, _ := cmd.CombinedOutput()
	s := string(out)
	if len(s) > 3000 {
		s = s[:3000]
	}
	return strings.Contains(s, "VIOLATION-CONFIRMED"), s
}

// ---- must-fail corpus ----

type Mutant struct {
	Name   string `json:"name"`
	File   string `json:"file"`
	Old    string `json:"old"`
	New    string `json:"new"`
	Nth    int    `json:"nth,omitempty"`    // which occurrence of Old (1-based); 0 = must be unique
	Expect string `json:"expect"`           // "fail" (a named obligation must fail) or "pass" (harmless control)
	Kills  string `json:"kills,omitempty"`  // substring of an obligation name expected to fail
	Note   string `json:"note,omitempty"`
	Tier   string `json:"tier,omitempty"`   // "thorough": run the thorough tier for this mutant (default quick)
	Funcs  string `json:"funcs,omitempty"`  // restrict the run to contracts whose name contains this (speed only)
}

type mutantResult struct {
	m       Mutant
	ok      bool
	detail  string
	failed  []string
	elapsed float64
}

func applyMutant(m Mutant) (map[string][]byte, error) {
	path := filepath.Join(repoDir, m.File)
	b, err := os.ReadFile(path)
	if err != nil {
		return nil, err
	}
	s := string(b)
	n := strings.Count(s, m.Old)
	if n == 0 {
		return nil, fmt.Errorf("old text not found in %s", m.File)
	}
	if m.Nth == 0 && n != 1 {
		return nil, fmt.Errorf("old text occurs %d times in %s (set nth)", n, m.File)
	}
	idx := -1
	if m.Nth == 0 {
		idx = strings.Index(s, m.Old)
	} else {
		pos := 0
		for k := 0; k < m.Nth; k++ {
			i := strings.Index(s[pos:], m.Old)
			if i < 0 {
				return nil, fmt.Errorf("occurrence %d of old text not found in %s", m.Nth, m.File)
			}
			idx = pos + i
			pos = idx + len(m.Old)
		}
	}
	ns := s[:idx] + m.New + s[idx+len(m.Old):]
	return map[string][]byte{path: []byte(ns)}, nil
}

func cmdSelftest(args []string) int {
	fs := flag.NewFlagSet("selftest", flag.ExitOnError)
	prop := fs.String("prop", "", "property id (default: all with a corpus)")
	only := fs.String("only", "", "substring filter on mutant names")
	jobs := fs.Int("j", 4, "parallel mutants")
	fs.Parse(args)
	plans, err := loadPlans()
	if err != nil {
		fmt.Fprintln(os.Stderr, err)
		return 2
	}
	var props []string
	if *prop != "" {
		props = []string{*prop}
	} else {
		ms, _ := filepath.Glob(filepath.Join(verifDir, "selftest", "*.json"))
		for _, m := range ms {
			props = append(props, strings.TrimSuffix(filepath.Base(m), ".json"))
		}
	}
	bad := 0
	total := 0
	for _, p := range props {
		b, err := os.ReadFile(filepath.Join(verifDir, "selftest", p+".json"))
		if err != nil {
			fmt.Fprintln(os.Stderr, err)
			return 2
		}
		var muts []Mutant
		if err := json.Unmarshal(b, &muts); err != nil {
			fmt.Fprintln(os.Stderr, p, err)
			return 2
		}
		plan := plans[p]
		if plan == nil {
			fmt.Fprintln(os.Stderr, "no plan for", p)
			return 2
		}
		results := make([]mutantResult, len(muts))
		var wg sync.WaitGroup
		sem := make(chan struct{}, *jobs)
		for i, m := range muts {
			if *only != "" && !strings.Contains(m.Name, *only) {
				continue
			}
			wg.Add(1)
			sem <- struct{}{}
			go func(i int, m Mutant) {
				defer wg.Done()
				defer func() { <-sem }()
				start := time.Now()
				r := mutantResult{m: m}
				ov, err := applyMutant(m)
				if err != nil {
					r.detail = "cannot apply: " + err.Error()
					results[i] = r
					return
				}
				prog, err := LoadProgram(repoDir, plan.Pkgs, ov)
				if err != nil {
					r.detail = "mutant does not compile: " + firstLine(err.Error())
					results[i] = r
					return
				}
				tier := "quick"
				if m.Tier != "" {
					tier = m.Tier
				}
				out := runPropertyIn(prog, p, tier, m.Funcs, filepath.Join(verifDir, "work", "selftest", p, sanitizeFile(m.Name)))
				for _, o := range out.Obls {
					if o.Expect == "sat" || o.Result == nil {
						continue
					}
					if o.Result.Status != "unsat" {
						r.failed = append(r.failed, o.Name)
					}
				}
				for _, u := range out.Undecided {
					r.failed = append(r.failed, "UNDECIDED:"+u)
				}
				switch m.Expect {
				case "pass":
					r.ok = len(r.failed) == 0
					if !r.ok {
						r.detail = "false alarm on harmless change"
					}
				default:
					r.ok = len(r.failed) > 0
					if r.ok && m.Kills != "" {
						hit := false
						for _, f := range r.failed {
							if strings.Contains(f, m.Kills) {
								hit = true
							}
						}
						if !hit {
							r.detail = "killed, but not by the expected obligation " + m.Kills
						}
					}
					if !r.ok {
						r.detail = "SURVIVED"
					}
				}
				r.elapsed = time.Since(start).Seconds()
				results[i] = r
			}(i, m)
		}
		wg.Wait()
		for _, r := range results {
			if r.m.Name == "" {
				continue
			}
			total++
			st := "ok  "
			if !r.ok {
				st = "BAD "
				bad++
			}
			fl := ""
			if len(r.failed) > 0 {
				fl = " killed-by=" + strings.Join(shortNames(r.failed, 3), ",")
			}
			fmt.Printf("%s %s/%s expect=%s %s%s (%.0fs)\n", st, p, r.m.Name, r.m.Expect, r.detail, fl, r.elapsed)
		}
	}
	os.RemoveAll(filepath.Join(verifDir, "work", "selftest"))
	fmt.Printf("selftest: %d mutants, %d not as expected\n", total, bad)
	if bad > 0 {
		return 3
	}
	return 0
}

func shortNames(xs []string, n int) []string {
	var out []string
	for i, x := range xs {
		if i >= n {
			out = append(out, fmt.Sprintf("+%d more", len(xs)-n))
			break
		}
		if j := strings.Index(x, "#"); j >= 0 {
			k := strings.LastIndex(x[:j], ".")
			if k >= 0 {
				x = x[k+1:]
			}
		}
		out = append(out, x)
	}
	return out
}
