package main

import (
	"encoding/json"
	"flag"
	"fmt"
	"os"
	"path/filepath"
	"strings"
	"sync"
	"time"
)

// tryGoReplay builds an in-package Go test from a solver model and runs it on the real code.
func tryGoReplay(prop string, o *Obl, inputs map[string]string, dir, name string) (file string, confirmed bool, note string) {
	return "", false, ""
}

func runGoReplay(file string) (bool, string) { return false, "" }

// ---- must-fail corpus ----

type Mutant struct {
	Name   string `json:"name"`
	File   string `json:"file"`
	Old    string `json:"old"`
	New    string `json:"new"`
	Nth    int    `json:"nth,omitempty"`    // which occurrence of Old (1-based); 0 = must be unique
	Expect string `json:"expect"`           // "fail" (a named obligation must fail) or "pass" (harmless control)
	Kills  string `json:"kills,omitempty"`  // substring of an obligation name expected to fail
	Note   string `json:"note,omitempty"`
}

type mutantResult struct {
	m       Mutant
	ok      bool
	detail  string
	failed  []string
	elapsed float64
}

func applyMutant(m Mutant) (map[string][]byte, error) {
	path := filepath.Join(repoDir, m.File)
	b, err := os.ReadFile(path)
	if err != nil {
		return nil, err
	}
	s := string(b)
	n := strings.Count(s, m.Old)
	if n == 0 {
		return nil, fmt.Errorf("old text not found in %s", m.File)
	}
	if m.Nth == 0 && n != 1 {
		return nil, fmt.Errorf("old text occurs %d times in %s (set nth)", n, m.File)
	}
	idx := -1
	if m.Nth == 0 {
		idx = strings.Index(s, m.Old)
	} else {
		pos := 0
		for k := 0; k < m.Nth; k++ {
			i := strings.Index(s[pos:], m.Old)
			if i < 0 {
				return nil, fmt.Errorf("occurrence %d of old text not found in %s", m.Nth, m.File)
			}
			idx = pos + i
			pos = idx + len(m.Old)
		}
	}
	ns := s[:idx] + m.New + s[idx+len(m.Old):]
	return map[string][]byte{path: []byte(ns)}, nil
}

func cmdSelftest(args []string) int {
	fs := flag.NewFlagSet("selftest", flag.ExitOnError)
	prop := fs.String("prop", "", "property id (default: all with a corpus)")
	only := fs.String("only", "", "substring filter on mutant names")
	jobs := fs.Int("j", 4, "parallel mutants")
	fs.Parse(args)
	plans, err := loadPlans()
	if err != nil {
		fmt.Fprintln(os.Stderr, err)
		return 2
	}
	var props []string
	if *prop != "" {
		props = []string{*prop}
	} else {
		ms, _ := filepath.Glob(filepath.Join(verifDir, "selftest", "*.json"))
		for _, m := range ms {
			props = append(props, strings.TrimSuffix(filepath.Base(m), ".json"))
		}
	}
	bad := 0
	total := 0
	for _, p := range props {
		b, err := os.ReadFile(filepath.Join(verifDir, "selftest", p+".json"))
		if err != nil {
			fmt.Fprintln(os.Stderr, err)
			return 2
		}
		var muts []Mutant
		if err := json.Unmarshal(b, &muts); err != nil {
			fmt.Fprintln(os.Stderr, p, err)
			return 2
		}
		plan := plans[p]
		if plan == nil {
			fmt.Fprintln(os.Stderr, "no plan for", p)
			return 2
		}
		results := make([]mutantResult, len(muts))
		var wg sync.WaitGroup
		sem := make(chan struct{}, *jobs)
		for i, m := range muts {
			if *only != "" && !strings.Contains(m.Name, *only) {
				continue
			}
			wg.Add(1)
			sem <- struct{}{}
			go func(i int, m Mutant) {
				defer wg.Done()
				defer func() { <-sem }()
				start := time.Now()
				r := mutantResult{m: m}
				ov, err := applyMutant(m)
				if err != nil {
					r.detail = "cannot apply: " + err.Error()
					results[i] = r
					return
				}
				prog, err := LoadProgram(repoDir, plan.Pkgs, ov)
				if err != nil {
					r.detail = "mutant does not compile: " + firstLine(err.Error())
					results[i] = r
					return
				}
				out := runPropertyIn(prog, p, "quick", "", filepath.Join(verifDir, "work", "selftest", p, sanitizeFile(m.Name)))
				for _, o := range out.Obls {
					if o.Expect == "sat" || o.Result == nil {
						continue
					}
					if o.Result.Status != "unsat" {
						r.failed = append(r.failed, o.Name)
					}
				}
				for _, u := range out.Undecided {
					r.failed = append(r.failed, "UNDECIDED:"+u)
				}
				switch m.Expect {
				case "pass":
					r.ok = len(r.failed) == 0
					if !r.ok {
						r.detail = "false alarm on harmless change"
					}
				default:
					r.ok = len(r.failed) > 0
					if r.ok && m.Kills != "" {
						hit := false
						for _, f := range r.failed {
							if strings.Contains(f, m.Kills) {
								hit = true
							}
						}
						if !hit {
							r.detail = "killed, but not by the expected obligation " + m.Kills
						}
					}
					if !r.ok {
						r.detail = "SURVIVED"
					}
				}
				r.elapsed = time.Since(start).Seconds()
				results[i] = r
			}(i, m)
		}
		wg.Wait()
		for _, r := range results {
			if r.m.Name == "" {
				continue
			}
			total++
			st := "ok  "
			if !r.ok {
				st = "BAD "
				bad++
			}
			fl := ""
			if len(r.failed) > 0 {
				fl = " killed-by=" + strings.Join(shortNames(r.failed, 3), ",")
			}
			fmt.Printf("%s %s/%s expect=%s %s%s (%.0fs)\n", st, p, r.m.Name, r.m.Expect, r.detail, fl, r.elapsed)
		}
	}
	os.RemoveAll(filepath.Join(verifDir, "work", "selftest"))
	fmt.Printf("selftest: %d mutants, %d not as expected\n", total, bad)
	if bad > 0 {
		return 3
	}
	return 0
}

func shortNames(xs []string, n int) []string {
	var out []string
	for i, x := range xs {
		if i >= n {
			out = append(out, fmt.Sprintf("+%d more", len(xs)-n))
			break
		}
		if j := strings.Index(x, "#"); j >= 0 {
			k := strings.LastIndex(x[:j], ".")
			if k >= 0 {
				x = x[k+1:]
			}
		}
		out = append(out, x)
	}
	return out
}
