package main

// tryGoReplay builds an in-package Go test from a solver model and runs it on the real code.
func tryGoReplay(prop string, o *Obl, inputs map[string]string, dir, name string) (file string, confirmed bool, note string) {
	return "", false, ""
}

func runGoReplay(file string) (bool, string) { return false, "" }

func cmdSelftest(args []string) int { return 0 }
