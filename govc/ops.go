package main

import (
	"fmt"
	"go/token"
	"go/types"
	"math/big"
	"strings"
)

func (e *Enc) overflowCheck(guard T, res T, ty types.Type, pos token.Pos, what string) {
	if res.S.K != SInt || !isInteger(ty) {
		return
	}
	e.obligeAssume("arith", e.srcLabel(pos, what), guard, rangeInv(res, ty), "no overflow in "+what, pos)
}

func isLit(t T) (*big.Int, bool) {
	s := t.E
	if strings.HasPrefix(s, "(_ bv") {
		f := strings.Fields(s[5:])
		v, ok := new(big.Int).SetString(f[0], 10)
		return v, ok
	}
	if strings.HasPrefix(s, "(- ") && strings.HasSuffix(s, ")") {
		v, ok := new(big.Int).SetString(s[3:len(s)-1], 10)
		if ok {
			return v.Neg(v), true
		}
		return nil, false
	}
	v, ok := new(big.Int).SetString(s, 10)
	return v, ok
}

func (e *Enc) binop(fr *Frame, op token.Token, a, b Val, ta, tb, tr types.Type, guard T, pos token.Pos) Val {
	x, y := a.L[0], b.L[0]
	ut := ta.Underlying()
	switch ut.(type) {
	case *types.Basic:
	default:
		// pointers, interfaces, maps, chans, funcs, structs, arrays: only == and !=
		if op == token.EQL || op == token.NEQ {
			var eqs []T
			if len(a.L) != len(b.L) {
				// comparison with nil constant of a multi-leaf type (slice == nil)
				if len(a.L) >= 1 && len(b.L) >= 1 {
					eqs = append(eqs, Eq(a.L[0], b.L[0]))
				}
			} else {
				if _, isSlice := ut.(*types.Slice); isSlice {
					eqs = append(eqs, Eq(a.L[0], b.L[0]))
				} else {
					for i := range a.L {
						if a.L[i].S.K == SBV && e.isFloatLeaf(ta, i) {
							eqs = append(eqs, T{BoolS, app("fp.eq", ToFP(a.L[i]), ToFP(b.L[i]))})
						} else {
							eqs = append(eqs, Eq(a.L[i], b.L[i]))
						}
					}
				}
			}
			r := And(eqs...)
			if op == token.NEQ {
				r = Not(r)
			}
			return Val{L: []T{r}}
		}
		panic(unsupported("binop " + op.String() + " on " + ta.String()))
	}
	switch {
	case isBool(ta):
		switch op {
		case token.EQL:
			return Val{L: []T{Eq(x, y)}}
		case token.NEQ:
			return Val{L: []T{Not(Eq(x, y))}}
		case token.LAND, token.AND:
			return Val{L: []T{And(x, y)}}
		case token.LOR, token.OR:
			return Val{L: []T{Or(x, y)}}
		}
	case isString(ta):
		switch op {
		case token.EQL:
			return Val{L: []T{Eq(x, y)}}
		case token.NEQ:
			return Val{L: []T{Not(Eq(x, y))}}
		case token.LSS:
			return Val{L: []T{{BoolS, app("<", x.E, y.E)}}}
		case token.LEQ:
			return Val{L: []T{{BoolS, app("<=", x.E, y.E)}}}
		case token.GTR:
			return Val{L: []T{{BoolS, app(">", x.E, y.E)}}}
		case token.GEQ:
			return Val{L: []T{{BoolS, app(">=", x.E, y.E)}}}
		case token.ADD:
			e.approximate("string concatenation")
			return e.freshVal(tr, "concat")
		}
	case isFloat(ta):
		return e.floatOp(op, x, y)
	case isInteger(ta):
		if x.S.K == SBV {
			return Val{L: []T{e.bvOp(fr, op, x, y, ta, tb, guard, pos)}}
		}
		return Val{L: []T{e.intOp(fr, op, x, y, ta, tb, tr, guard, pos)}}
	}
	if op == token.EQL || op == token.NEQ {
		r := Eq(x, y)
		if op == token.NEQ {
			r = Not(r)
		}
		return Val{L: []T{r}}
	}
	panic(unsupported("binop " + op.String() + " on " + ta.String()))
}

func (e *Enc) isFloatLeaf(t types.Type, i int) bool {
	sh := e.shape(t)
	return i < len(sh) && sh[i].Typ != nil && isFloat(sh[i].Typ)
}

func (e *Enc) floatOp(op token.Token, x, y T) Val {
	fx, fy := ToFP(x), ToFP(y)
	cmp := func(o string) Val { return Val{L: []T{{BoolS, app(o, fx, fy)}}} }
	switch op {
	case token.EQL:
		return cmp("fp.eq")
	case token.NEQ:
		return Val{L: []T{Not(T{BoolS, app("fp.eq", fx, fy)})}}
	case token.LSS:
		return cmp("fp.lt")
	case token.LEQ:
		return cmp("fp.leq")
	case token.GTR:
		return cmp("fp.gt")
	case token.GEQ:
		return cmp("fp.geq")
	}
	var o string
	switch op {
	case token.ADD:
		o = "fp.add RNE"
	case token.SUB:
		o = "fp.sub RNE"
	case token.MUL:
		o = "fp.mul RNE"
	case token.QUO:
		o = "fp.div RNE"
	default:
		panic(unsupported("float op " + op.String()))
	}
	return Val{L: []T{e.fpResult(app(o, fx, fy), x.S.W)}}
}

// fpResult binds a floating-point term to a fresh bit pattern (NaN payload unconstrained).
func (e *Enc) fpResult(fpTerm string, w int) T {
	r := e.declare(BV(w), "f")
	e.emit(fmt.Sprintf("(assert (= %s %s))", ToFP(r), fpTerm))
	return r
}

func (e *Enc) shiftCount(y T, ty types.Type, w int) (T, T) {
	// returns count converted to width w and the condition "count >= w" (result saturates)
	if y.S.K == SInt {
		panic(unsupported("shift by Int-sorted count in bv context"))
	}
	big := False
	c := y
	wl := IntLit64(y.S, int64(w))
	if isUnsigned(ty) {
		big = T{BoolS, app("bvuge", y.E, wl.E)}
	} else {
		big = T{BoolS, app("bvsge", y.E, wl.E)}
	}
	if y.S.W < w {
		c = T{BV(w), fmt.Sprintf("((_ zero_extend %d) %s)", w-y.S.W, y.E)}
	} else if y.S.W > w {
		c = T{BV(w), fmt.Sprintf("((_ extract %d 0) %s)", w-1, y.E)}
	}
	return c, big
}

func (e *Enc) bvOp(fr *Frame, op token.Token, x, y T, ta, tb types.Type, guard T, pos token.Pos) T {
	uns := isUnsigned(ta)
	s := x.S
	b2 := func(o string) T { return T{s, app(o, x.E, y.E)} }
	c2 := func(o string) T { return T{BoolS, app(o, x.E, y.E)} }
	switch op {
	case token.ADD:
		return b2("bvadd")
	case token.SUB:
		return b2("bvsub")
	case token.MUL:
		return b2("bvmul")
	case token.QUO, token.REM:
		e.obligeAssume("div", e.srcLabel(pos, "div"), guard, Not(Eq(y, IntLit64(s, 0))), "divisor != 0", pos)
		if op == token.QUO {
			if uns {
				return b2("bvudiv")
			}
			return b2("bvsdiv")
		}
		if uns {
			return b2("bvurem")
		}
		return b2("bvsrem")
	case token.AND:
		return b2("bvand")
	case token.OR:
		return b2("bvor")
	case token.XOR:
		return b2("bvxor")
	case token.AND_NOT:
		return T{s, app("bvand", x.E, app("bvnot", y.E))}
	case token.SHL, token.SHR:
		c, over := e.shiftCount(y, tb, s.W)
		var r, sat T
		switch {
		case op == token.SHL:
			r, sat = T{s, app("bvshl", x.E, c.E)}, IntLit64(s, 0)
		case uns:
			r, sat = T{s, app("bvlshr", x.E, c.E)}, IntLit64(s, 0)
		default:
			r = T{s, app("bvashr", x.E, c.E)}
			sat = T{s, app("bvashr", x.E, IntLit64(s, int64(s.W-1)).E)}
		}
		if v, ok := isLit(y); ok && v.Cmp(big.NewInt(int64(s.W))) < 0 && v.Sign() >= 0 {
			return r
		}
		return Ite(over, sat, r)
	case token.EQL:
		return Eq(x, y)
	case token.NEQ:
		return Not(Eq(x, y))
	case token.LSS:
		if uns {
			return c2("bvult")
		}
		return c2("bvslt")
	case token.LEQ:
		if uns {
			return c2("bvule")
		}
		return c2("bvsle")
	case token.GTR:
		if uns {
			return c2("bvugt")
		}
		return c2("bvsgt")
	case token.GEQ:
		if uns {
			return c2("bvuge")
		}
		return c2("bvsge")
	}
	panic(unsupported("bv op " + op.String()))
}

func tdiv(x, y T) T {
	// Go's truncated division on mathematical integers
	if v, ok := isLit(y); ok && v.Sign() > 0 {
		return Ite(T{BoolS, app(">=", x.E, "0")}, T{IntS, app("div", x.E, y.E)}, T{IntS, app("-", app("div", app("-", x.E), y.E))})
	}
	q := app("div", app("abs", x.E), app("abs", y.E))
	same := T{BoolS, app("=", app(">=", x.E, "0"), app(">=", y.E, "0"))}
	return Ite(same, T{IntS, q}, T{IntS, app("-", q)})
}

func (e *Enc) intOp(fr *Frame, op token.Token, x, y T, ta, tb, tr types.Type, guard T, pos token.Pos) T {
	if y.S.K == SBV { // shift count
		y = e.bvToInt(y, !isUnsigned(tb))
	}
	c2 := func(o string) T { return T{BoolS, app(o, x.E, y.E)} }
	chk := func(r T, what string) T {
		r = e.define(r, "ar")
		e.overflowCheck(guard, r, ta, pos, what)
		return r
	}
	switch op {
	case token.ADD:
		return chk(T{IntS, app("+", x.E, y.E)}, "+")
	case token.SUB:
		return chk(T{IntS, app("-", x.E, y.E)}, "-")
	case token.MUL:
		return chk(T{IntS, app("*", x.E, y.E)}, "*")
	case token.QUO:
		e.obligeAssume("div", e.srcLabel(pos, "div"), guard, Not(Eq(y, IntLit64(IntS, 0))), "divisor != 0", pos)
		return chk(tdiv(x, y), "/")
	case token.REM:
		e.obligeAssume("div", e.srcLabel(pos, "div"), guard, Not(Eq(y, IntLit64(IntS, 0))), "divisor != 0", pos)
		q := e.define(tdiv(x, y), "q")
		r := e.define(T{IntS, app("-", x.E, app("*", y.E, q.E))}, "rem")
		if _, lit := isLit(y); !lit && e.quantDepth == 0 {
			// linear consequences of the definition for a symbolic divisor (solvers are weak on
			// nonlinear mod): 0 <= x < y ==> r = x ;  y <= x < 2y ==> r = x - y ; y > 0 && x >= 0 ==> 0 <= r < y
			e.assert(Implies(guard, T{BoolS, fmt.Sprintf("(and (=> (and (<= 0 %[1]s) (< %[1]s %[2]s)) (= %[3]s %[1]s)) (=> (and (<= %[2]s %[1]s) (< %[1]s (* 2 %[2]s))) (= %[3]s (- %[1]s %[2]s))) (=> (and (< 0 %[2]s) (<= 0 %[1]s)) (and (<= 0 %[3]s) (< %[3]s %[2]s))))", x.E, y.E, r.E)}))
		}
		return r
	case token.SHL:
		if v, ok := isLit(y); ok && v.Sign() >= 0 && v.Cmp(big.NewInt(64)) < 0 {
			return chk(T{IntS, app("*", x.E, pow2(int(v.Int64())).String())}, "<<")
		}
		panic(unsupported("shift by non-constant in int mode"))
	case token.SHR:
		if v, ok := isLit(y); ok && v.Sign() >= 0 && v.Cmp(big.NewInt(64)) < 0 {
			return T{IntS, app("div", x.E, pow2(int(v.Int64())).String())}
		}
		panic(unsupported("shift by non-constant in int mode"))
	case token.AND:
		if v, ok := isLit(y); ok {
			m := new(big.Int).Add(v, big.NewInt(1))
			if v.Sign() >= 0 && m.BitLen() > 0 && new(big.Int).And(m, v).Sign() == 0 {
				return T{IntS, app("mod", x.E, m.String())}
			}
		}
		panic(unsupported("bitwise and in int mode"))
	case token.OR, token.XOR, token.AND_NOT:
		panic(unsupported("bitwise op in int mode"))
	case token.EQL:
		return Eq(x, y)
	case token.NEQ:
		return Not(Eq(x, y))
	case token.LSS:
		return c2("<")
	case token.LEQ:
		return c2("<=")
	case token.GTR:
		return c2(">")
	case token.GEQ:
		return c2(">=")
	}
	panic(unsupported("int op " + op.String()))
}

func (e *Enc) neg(a Val, t types.Type, guard T, pos token.Pos) Val {
	x := a.L[0]
	switch {
	case isFloat(t):
		return Val{L: []T{e.fpResult(app("fp.neg", ToFP(x)), x.S.W)}}
	case x.S.K == SBV:
		return Val{L: []T{{x.S, app("bvneg", x.E)}}}
	case x.S.K == SInt:
		r := e.define(T{IntS, app("-", x.E)}, "neg")
		e.overflowCheck(guard, r, t, pos, "unary -")
		return Val{L: []T{r}}
	}
	panic(unsupported("negation of " + t.String()))
}

func (e *Enc) convert(v Val, from, to types.Type, guard T, pos token.Pos) Val {
	fu, tu := from.Underlying(), to.Underlying()
	fb, fok := fu.(*types.Basic)
	tb, tok := tu.(*types.Basic)
	if !fok || !tok {
		// []byte <-> string and friends
		if _, ok := tu.(*types.Slice); ok && isString(from) {
			e.approximate("string to slice conversion")
			return e.freshVal(to, "conv")
		}
		if _, ok := fu.(*types.Slice); ok && isString(to) {
			e.approximate("slice to string conversion")
			return e.freshVal(to, "conv")
		}
		if len(e.shape(from)) == len(e.shape(to)) {
			return v
		}
		panic(unsupported("conversion " + from.String() + " -> " + to.String()))
	}
	x := v.L[0]
	ts := e.sortOfBasic(tb)
	switch {
	case fb.Info()&types.IsInteger != 0 && tb.Info()&types.IsInteger != 0:
		return Val{L: []T{e.intConv(x, from, to, ts, guard, pos)}}
	case fb.Info()&types.IsInteger != 0 && tb.Info()&types.IsFloat != 0:
		es, sg := fpSort(ts.W)
		var term string
		if x.S.K == SBV {
			if isUnsigned(from) {
				term = fmt.Sprintf("((_ to_fp_unsigned %d %d) RNE %s)", es, sg, x.E)
			} else {
				term = fmt.Sprintf("((_ to_fp %d %d) RNE %s)", es, sg, x.E)
			}
		} else {
			term = fmt.Sprintf("((_ to_fp %d %d) RNE (to_real %s))", es, sg, x.E)
		}
		return Val{L: []T{e.fpResult(term, ts.W)}}
	case fb.Info()&types.IsFloat != 0 && tb.Info()&types.IsInteger != 0:
		// in range: truncation toward zero; out of range / NaN: implementation-specific (unconstrained)
		w := intWidth(tb)
		var conv string
		if isUnsigned(to) {
			conv = fmt.Sprintf("((_ fp.to_ubv %d) RTZ %s)", w, ToFP(x))
		} else {
			conv = fmt.Sprintf("((_ fp.to_sbv %d) RTZ %s)", w, ToFP(x))
		}
		r := T{BV(w), conv}
		if ts.K == SInt {
			return Val{L: []T{e.define(e.bvToInt(e.define(r, "f2i"), !isUnsigned(to)), "f2i")}}
		}
		return Val{L: []T{r}}
	case fb.Info()&types.IsFloat != 0 && tb.Info()&types.IsFloat != 0:
		if x.S.W == ts.W {
			return v
		}
		es, sg := fpSort(ts.W)
		return Val{L: []T{e.fpResult(fmt.Sprintf("((_ to_fp %d %d) RNE %s)", es, sg, ToFP(x)), ts.W)}}
	case fb.Info()&types.IsString != 0 && tb.Info()&types.IsString != 0:
		return v
	case tb.Info()&types.IsString != 0:
		e.approximate("conversion to string")
		return e.freshVal(to, "conv")
	case fb.Kind() == types.UnsafePointer || tb.Kind() == types.UnsafePointer:
		return v
	}
	panic(unsupported("conversion " + from.String() + " -> " + to.String()))
}

func (e *Enc) intConv(x T, from, to types.Type, ts Sort, guard T, pos token.Pos) T {
	switch {
	case x.S.K == SBV && ts.K == SBV:
		switch {
		case x.S.W == ts.W:
			return x
		case x.S.W > ts.W:
			return T{ts, fmt.Sprintf("((_ extract %d 0) %s)", ts.W-1, x.E)}
		case isUnsigned(from):
			return T{ts, fmt.Sprintf("((_ zero_extend %d) %s)", ts.W-x.S.W, x.E)}
		default:
			return T{ts, fmt.Sprintf("((_ sign_extend %d) %s)", ts.W-x.S.W, x.E)}
		}
	case x.S.K == SInt && ts.K == SInt:
		// conversion wraps; in int mode we require it to be value preserving
		r := x
		if e.mode == "int" && e.contract != nil && e.contract.Opts["wrapconv"] == "1" {
			w := intWidth(to.Underlying().(*types.Basic))
			m := pow2(w).String()
			if isUnsigned(to) {
				return e.define(T{IntS, app("mod", x.E, m)}, "cv")
			}
			h := pow2(w - 1).String()
			return e.define(T{IntS, app("-", app("mod", app("+", x.E, h), m), h)}, "cv")
		}
		e.obligeAssume("arith", e.srcLabel(pos, "conv"), guard, rangeInv(r, to), "conversion preserves value", pos)
		return r
	case x.S.K == SBV && ts.K == SInt:
		return e.define(e.bvToInt(x, !isUnsigned(from)), "b2i")
	case x.S.K == SInt && ts.K == SBV:
		return e.define(e.intToBV(x, ts.W), "i2b")
	}
	panic(unsupported("int conversion"))
}
