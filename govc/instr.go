package main

import (
	"fmt"
	"go/constant"
	"go/token"
	"go/types"
	"math"
	"math/big"
	"strings"

	"golang.org/x/tools/go/ssa"
)

func (e *Enc) constVal(c *ssa.Const) Val {
	t := c.Type()
	if c.Value == nil {
		if _, ok := t.Underlying().(*types.Basic); ok && t.Underlying().(*types.Basic).Kind() == types.UntypedNil {
			return Val{Typ: t, L: []T{IntLit64(IntS, 0)}}
		}
		return e.zeroVal(t)
	}
	return e.constOf(c.Value, t)
}

func (e *Enc) constOf(cv constant.Value, t types.Type) Val {
	b, ok := t.Underlying().(*types.Basic)
	if !ok {
		panic(unsupported("constant of type " + t.String()))
	}
	s := e.sortOfBasic(b)
	switch {
	case b.Info()&types.IsBoolean != 0:
		return Val{Typ: t, L: []T{BoolLit(constant.BoolVal(cv))}}
	case b.Info()&types.IsInteger != 0:
		iv := constant.ToInt(cv)
		bi, ok := new(big.Int).SetString(iv.ExactString(), 10)
		if !ok {
			panic(unsupported("integer constant " + cv.String()))
		}
		return Val{Typ: t, L: []T{IntLit(s, bi)}}
	case b.Info()&types.IsFloat != 0:
		f, _ := constant.Float64Val(constant.ToFloat(cv))
		if b.Kind() == types.Float32 {
			return Val{Typ: t, L: []T{IntLit(s, new(big.Int).SetUint64(uint64(math.Float32bits(float32(f)))))}}
		}
		return Val{Typ: t, L: []T{IntLit(s, new(big.Int).SetUint64(math.Float64bits(f)))}}
	case b.Info()&types.IsString != 0:
		return Val{Typ: t, L: []T{e.strConst(constant.StringVal(cv))}}
	}
	panic(unsupported("constant " + cv.String()))
}

// strConst maps string literals to distinct reals; "" is 0 (the least string).
func (e *Enc) strConst(s string) T {
	if s == "" {
		return T{RealS, "0.0"}
	}
	if e.strs == nil {
		e.strs = map[string]string{}
	}
	if t, ok := e.strs[s]; ok {
		return T{RealS, t}
	}
	// uninterpreted but order-consistent constants are not needed so far: use a declared constant
	n := fmt.Sprintf("str!%d", len(e.strs)+1)
	e.strs[s] = n
	return T{RealS, n}
}

func (e *Enc) declStrConsts() []string {
	var out []string
	type kv struct{ k, v string }
	var all []kv
	for k, v := range e.strs {
		all = append(all, kv{k, v})
	}
	// order-consistent: assert the real order matches the string order
	for i := range all {
		for j := i + 1; j < len(all); j++ {
			if all[j].k < all[i].k {
				all[i], all[j] = all[j], all[i]
			}
		}
	}
	for _, x := range all {
		out = append(out, fmt.Sprintf("(declare-const %s Real)", x.v))
	}
	prev := "0.0"
	for _, x := range all {
		out = append(out, fmt.Sprintf("(assert (< %s %s))", prev, x.v))
		prev = x.v
	}
	return out
}

func (e *Enc) setVal(fr *Frame, ins ssa.Value, v Val) {
	v.Typ = ins.Type()
	fr.vals[ins] = e.nameVal(v, ins.Name())
}

func (e *Enc) approximate(what string) {
	for _, a := range e.approx {
		if a == what {
			return
		}
	}
	e.approx = append(e.approx, what)
}

func (e *Enc) instr(fr *Frame, b *ssa.BasicBlock, ins ssa.Instruction, guard T, st *State) {
	switch x := ins.(type) {
	case *ssa.DebugRef:
		return
	case *ssa.Alloc:
		r := e.alloc(st)
		et := x.Type().(*types.Pointer).Elem()
		p := Val{Typ: x.Type(), L: []T{r}}
		if at, ok := et.Underlying().(*types.Array); ok {
			// arrays live in the slice backing store so that they can be sliced
			p.P = &PtrInfo{Space: "E", Root: at.Elem(), Prefix: ""}
		}
		e.storeAt(st, p, e.zeroValFor(et))
		fr.vals[x] = p
		if !x.Heap || closureOnly(x) {
			e.privateCells = append(e.privateCells, privateCell{p, et})
		}
	case *ssa.BinOp:
		a, c := e.get(fr, x.X), e.get(fr, x.Y)
		e.setVal(fr, x, e.binop(fr, x.Op, a, c, x.X.Type(), x.Y.Type(), x.Type(), guard, x.Pos()))
	case *ssa.UnOp:
		a := e.get(fr, x.X)
		switch x.Op {
		case token.MUL: // load
			e.nilCheck(fr, a, guard, x.Pos())
			e.interiorGuard(a, x.X.Type())
			e.setVal(fr, x, e.loadAt(st, a, x.Type()))
		case token.NOT:
			e.setVal(fr, x, Val{L: []T{Not(a.L[0])}})
		case token.SUB:
			e.setVal(fr, x, e.neg(a, x.Type(), guard, x.Pos()))
		case token.XOR:
			if a.L[0].S.K != SBV {
				panic(unsupported("bitwise complement in int mode"))
			}
			e.setVal(fr, x, Val{L: []T{{a.L[0].S, app("bvnot", a.L[0].E)}}})
		case token.ARROW:
			e.approximate("channel receive")
			e.setVal(fr, x, e.freshVal(x.Type(), "recv"))
		default:
			panic(unsupported("unop " + x.Op.String()))
		}
	case *ssa.Store:
		p, v := e.get(fr, x.Addr), e.get(fr, x.Val)
		v.Typ = x.Addr.Type().Underlying().(*types.Pointer).Elem()
		e.nilCheck(fr, p, guard, x.Pos())
		e.interiorGuard(p, x.Addr.Type())
		v = e.checkStorable(v, st)
		e.storeAt(st, p, v)
	case *ssa.FieldAddr:
		p := e.get(fr, x.X)
		e.nilCheck(fr, p, guard, x.Pos())
		stt := x.X.Type().Underlying().(*types.Pointer).Elem().Underlying().(*types.Struct)
		space, root, prefix, idxs, glob := e.ptrParts(p)
		npref := prefix + "." + fieldName(stt, x.Field)
		if at, isArr := stt.Field(x.Field).Type().Underlying().(*types.Array); isArr && space == "H" && len(idxs) == 0 && !strings.Contains(npref, "[]") && !opaqueTypes[typeKey(stt.Field(x.Field).Type())] {
			if _, basic := at.Elem().Underlying().(*types.Basic); basic {
				// &obj.arr: the array lives in the slice backing store (see fieldArray)
				fr.vals[x] = Val{Typ: x.Type(), L: []T{e.fieldArrayRef(root, npref+"[]", p.L[0])}, P: &PtrInfo{Space: "E", Root: at.Elem(), Prefix: ""}}
				return
			}
		}
		fr.vals[x] = Val{Typ: x.Type(), L: p.L, P: &PtrInfo{Space: space, Root: root, Prefix: npref, Idxs: idxs, Glob: glob}}
	case *ssa.Field:
		s := e.get(fr, x.X)
		stt := x.X.Type().Underlying().(*types.Struct)
		lo, hi := e.fieldRange(stt, x.Field)
		e.setVal(fr, x, Val{L: s.L[lo:hi]})
	case *ssa.IndexAddr:
		base, idx := e.get(fr, x.X), e.toIdx(e.get(fr, x.Index), x.Index.Type())
		switch bt := x.X.Type().Underlying().(type) {
		case *types.Slice:
			e.obligeAssume("bounds", e.srcLabel(x.Pos(), "index"), guard, And(e.sle(IntLit64(idx.S, 0), idx), e.slt(idx, base.L[2])), "index in range", x.Pos())
			p := e.sliceElemPtr(base, idx)
			p.P.Idxs[0] = e.define(p.P.Idxs[0], "ix")
			fr.vals[x] = p
		case *types.Pointer: // pointer to array
			at := bt.Elem().Underlying().(*types.Array)
			e.obligeAssume("bounds", e.srcLabel(x.Pos(), "index"), guard, And(e.sle(IntLit64(idx.S, 0), idx), e.slt(idx, IntLit64(idx.S, at.Len()))), "array index in range", x.Pos())
			space, root, prefix, idxs, glob := e.ptrParts(base)
			if base.P == nil {
				root = bt.Elem()
			}
			ni := append(append([]T{}, idxs...), e.define(idx, "ix"))
			np := prefix + "[]"
			if space == "E" && prefix == "" {
				np = "[]"
			}
			fr.vals[x] = Val{Typ: x.Type(), L: base.L, P: &PtrInfo{Space: space, Root: root, Prefix: np, Idxs: ni, Glob: glob}}
		default:
			panic(unsupported("IndexAddr on " + x.X.Type().String()))
		}
	case *ssa.Index:
		base, idx := e.get(fr, x.X), e.toIdx(e.get(fr, x.Index), x.Index.Type())
		switch bt := x.X.Type().Underlying().(type) {
		case *types.Array:
			e.obligeAssume("bounds", e.srcLabel(x.Pos(), "index"), guard, And(e.sle(IntLit64(idx.S, 0), idx), e.slt(idx, IntLit64(idx.S, bt.Len()))), "array index in range", x.Pos())
			r := Val{L: make([]T, len(base.L))}
			for i, l := range base.L {
				r.L[i] = Select(l, idx)
			}
			e.setVal(fr, x, r)
		case *types.Basic: // string index
			e.approximate("string indexing")
			e.setVal(fr, x, e.freshVal(x.Type(), "strbyte"))
		default:
			panic(unsupported("Index on " + x.X.Type().String()))
		}
	case *ssa.Slice:
		e.sliceOp(fr, x, guard, st)
	case *ssa.Phi:
		return
	case *ssa.If:
		c := e.get(fr, x.Cond).L[0]
		e.edge(fr, b, b.Succs[0], e.define(And(guard, c), "g"), st)
		e.edge(fr, b, b.Succs[1], e.define(And(guard, Not(c)), "g"), st)
	case *ssa.Jump:
		e.edge(fr, b, b.Succs[0], guard, st)
	case *ssa.Return:
		var vals []Val
		for _, r := range x.Results {
			vals = append(vals, e.get(fr, r))
		}
		fr.rets = append(fr.rets, retInfo{guard: guard, vals: vals, st: st, pos: x.Pos(), blk: b})
	case *ssa.Panic:
		e.panicAt(fr, guard, x.Pos(), "explicit panic")
	case *ssa.Call:
		e.call(fr, x, &x.Call, guard, st)
	case *ssa.ChangeType:
		v := e.get(fr, x.X)
		e.setVal(fr, x, v)
	case *ssa.Convert:
		e.setVal(fr, x, e.convert(e.get(fr, x.X), x.X.Type(), x.Type(), guard, x.Pos()))
	case *ssa.MakeInterface:
		e.makeInterface(fr, x, st)
	case *ssa.ChangeInterface:
		e.setVal(fr, x, e.get(fr, x.X))
	case *ssa.TypeAssert:
		e.typeAssert(fr, x, guard)
	case *ssa.Extract:
		tv := e.get(fr, x.Tuple)
		if tv.Tup == nil {
			panic(unsupported("extract from non-tuple"))
		}
		v := tv.Tup[x.Index]
		fr.vals[x] = v
	case *ssa.MakeSlice:
		ln, cp := e.toIdx(e.get(fr, x.Len), x.Len.Type()), e.toIdx(e.get(fr, x.Cap), x.Cap.Type())
		z := IntLit64(ln.S, 0)
		e.obligeAssume("bounds", e.srcLabel(x.Pos(), "make"), guard, And(e.sle(z, ln), e.sle(ln, cp)), "make: 0 <= len <= cap", x.Pos())
		r := e.alloc(st)
		elem := x.Type().Underlying().(*types.Slice).Elem()
		sv := Val{Typ: x.Type(), L: []T{r, z, ln, cp}}
		e.zeroBacking(st, r, elem)
		e.setVal(fr, x, sv)
	case *ssa.MakeMap:
		r := e.alloc(st)
		mt := x.Type().Underlying().(*types.Map)
		e.mapInit(st, r, mt)
		e.setVal(fr, x, Val{L: []T{r}})
	case *ssa.MapUpdate:
		e.mapUpdate(fr, x, guard, st)
	case *ssa.Lookup:
		e.lookup(fr, x, guard, st)
	case *ssa.Range:
		e.rangeInit(fr, x, st)
	case *ssa.Next:
		e.rangeNext(fr, x, guard, st)
	case *ssa.MakeClosure:
		fn := x.Fn.(*ssa.Function)
		var bind []Val
		for _, bv := range x.Bindings {
			bind = append(bind, e.get(fr, bv))
		}
		fr.vals[x] = Val{Typ: x.Type(), L: []T{IntLit64(IntS, 1)}, Fn: fn, Bind: bind}
	case *ssa.Defer:
		if e.effectFreeCall(&x.Call) {
			return
		}
		e.approximate("defer " + x.Call.String())
	case *ssa.RunDefers:
		return
	case *ssa.Go:
		e.approximate("go statement")
		e.havocAll(st, "go")
	case *ssa.Send:
		e.approximate("channel send")
	case *ssa.Select:
		e.approximate("select")
		e.setVal2(fr, x, e.freshVal(x.Type(), "select"))
	case *ssa.MakeChan:
		e.setVal(fr, x, Val{L: []T{e.alloc(st)}})
	case *ssa.SliceToArrayPointer:
		panic(unsupported("SliceToArrayPointer"))
	default:
		panic(unsupported(fmt.Sprintf("instruction %T", ins)))
	}
}

func (e *Enc) setVal2(fr *Frame, ins ssa.Value, v Val) { fr.vals[ins] = v }

func (e *Enc) zeroValFor(t types.Type) Val { return e.zeroVal(t) }

// checkStorable: pointers stored into the heap must point at whole objects. With
// `opt interior=opaque` a pointer into an object (&c.b) is stored as a pointer to a fresh
// object instead; from then on every access through a pointer that could be that one (same
// pointee type, not derived from the enclosing object) and every call that may have effects
// leaves the supported subset (interiorGuard / interiorCallGuard), so nothing is ever read or
// written through the stand-in.
func (e *Enc) checkStorable(v Val, st *State) Val {
	if v.P != nil && (v.P.Space != "H" || v.P.Prefix != "") {
		if e.contract != nil && e.contract.Opts["interior"] == "opaque" && v.Typ != nil {
			if pt, ok := v.Typ.Underlying().(*types.Pointer); ok {
				if e.interiorStored == nil {
					e.interiorStored = map[string]bool{}
				}
				e.interiorStored[typeKey(pt.Elem())] = true
				e.noteAssumed(e.fnName + ": a pointer into an object (" + pt.String() + ") is stored as an opaque stand-in; nothing is accessed through it afterwards (checked: such accesses and effectful calls are rejected as unsupported) (opt interior=opaque)")
				return Val{Typ: v.Typ, L: []T{e.alloc(st)}}
			}
		}
		panic(unsupported("storing an interior pointer"))
	}
	return v
}

// interiorGuard rejects an access through a pointer whose target type is one for which an
// interior pointer has been stored as an opaque stand-in (see checkStorable), unless the
// pointer is derived from an enclosing object of another type.
func (e *Enc) interiorGuard(p Val, ptrType types.Type) {
	if len(e.interiorStored) == 0 {
		return
	}
	var root types.Type
	if p.P != nil {
		root = p.P.Root
	} else if pt, ok := ptrType.Underlying().(*types.Pointer); ok {
		root = pt.Elem()
	}
	if root != nil && e.interiorStored[typeKey(root)] {
		panic(unsupported("access through a pointer that may be an interior pointer stored as opaque"))
	}
}

func (e *Enc) interiorCallGuard(what string) {
	if len(e.interiorStored) != 0 {
		panic(unsupported("call with possible effects after an interior pointer was stored as opaque: " + what))
	}
}

func (e *Enc) srcLabel(pos token.Pos, dflt string) string {
	if !pos.IsValid() {
		return dflt
	}
	return e.prog.srcAt(pos, dflt)
}

func (e *Enc) nilCheck(fr *Frame, p Val, guard T, pos token.Pos) {
	if p.P != nil && (p.P.Space == "G") {
		return
	}
	nz := Not(Eq(p.L[0], IntLit64(IntS, 0)))
	if nz.E == "true" {
		return
	}
	if fr.contract != nil && fr.contract.CheckNil && fr.depth == 0 {
		e.obligeAssume("nil", e.srcLabel(pos, "deref"), guard, nz, "non-nil dereference", pos)
		return
	}
	// assumption (reported): dereferenced pointers are non-nil
	e.assert(Implies(guard, nz))
}

func (e *Enc) panicAt(fr *Frame, guard T, pos token.Pos, what string) {
	c := fr.contract
	if c != nil && len(c.Panics) > 0 && fr.depth == 0 {
		// allowed to panic when one of the declared conditions holds (evaluated at entry)
		sc := e.scopeEntry(fr)
		var conds []T
		for _, p := range c.Panics {
			conds = append(conds, e.evalBool(sc, p.E))
		}
		e.oblige("unreachable-panic", e.srcLabel(pos, what), guard, Or(conds...), what, pos)
		return
	}
	if e.contract != nil && e.contract.NoPanic || e.prog.checkPanics {
		e.oblige("unreachable-panic", e.srcLabel(pos, what), guard, False, what, pos)
	}
}

func (e *Enc) toIdx(v Val, t types.Type) T {
	is := e.idxSort()
	x := v.L[0]
	if x.S.Eq(is) {
		return x
	}
	if x.S.K == SBV && is.K == SBV {
		if x.S.W < is.W {
			if isUnsigned(t) {
				return T{is, fmt.Sprintf("((_ zero_extend %d) %s)", is.W-x.S.W, x.E)}
			}
			return T{is, fmt.Sprintf("((_ sign_extend %d) %s)", is.W-x.S.W, x.E)}
		}
	}
	if x.S.K == SBV && is.K == SInt {
		return e.bvToInt(x, !isUnsigned(t))
	}
	panic(unsupported("index of sort " + x.S.String()))
}

func (e *Enc) bvToInt(x T, signed bool) T {
	n := T{IntS, app("bv2nat", x.E)}
	if !signed {
		return n
	}
	sign := T{BoolS, app("bvslt", x.E, IntLit64(x.S, 0).E)}
	return Ite(sign, T{IntS, app("-", n.E, pow2(x.S.W).String())}, n)
}

func (e *Enc) intToBV(x T, w int) T {
	return T{BV(w), fmt.Sprintf("((_ int2bv %d) %s)", w, x.E)}
}

func (e *Enc) sliceOp(fr *Frame, x *ssa.Slice, guard T, st *State) {
	base := e.get(fr, x.X)
	is := e.idxSort()
	var lo, hi, mx *T
	if x.Low != nil {
		t := e.toIdx(e.get(fr, x.Low), x.Low.Type())
		lo = &t
	}
	if x.High != nil {
		t := e.toIdx(e.get(fr, x.High), x.High.Type())
		hi = &t
	}
	if x.Max != nil {
		t := e.toIdx(e.get(fr, x.Max), x.Max.Type())
		mx = &t
	}
	zero := IntLit64(is, 0)
	switch bt := x.X.Type().Underlying().(type) {
	case *types.Slice:
		ref, off, ln, cp := base.L[0], base.L[1], base.L[2], base.L[3]
		l, h, m := zero, ln, cp
		if lo != nil {
			l = *lo
		}
		if hi != nil {
			h = *hi
		}
		if mx != nil {
			m = *mx
		}
		e.obligeAssume("bounds", e.srcLabel(x.Pos(), "slice"), guard, And(e.sle(zero, l), e.sle(l, h), e.sle(h, m), e.sle(m, cp)), "slice bounds in range", x.Pos())
		e.setVal(fr, x, Val{L: []T{ref, e.addIdx(off, l), e.subIdx(h, l), e.subIdx(m, l)}})
	case *types.Pointer:
		at, ok := bt.Elem().Underlying().(*types.Array)
		if !ok {
			panic(unsupported("slice of " + bt.String()))
		}
		n := IntLit64(is, at.Len())
		l, h, m := zero, n, n
		if lo != nil {
			l = *lo
		}
		if hi != nil {
			h = *hi
		}
		if mx != nil {
			m = *mx
		}
		e.obligeAssume("bounds", e.srcLabel(x.Pos(), "slice"), guard, And(e.sle(zero, l), e.sle(l, h), e.sle(h, m), e.sle(m, n)), "slice bounds in range", x.Pos())
		if base.P == nil || base.P.Space != "E" || base.P.Prefix != "" {
			panic(unsupported("slicing an array that is not a local"))
		}
		e.setVal(fr, x, Val{L: []T{base.L[0], l, e.subIdx(h, l), e.subIdx(m, l)}})
	case *types.Basic: // string
		e.approximate("string slicing")
		e.setVal(fr, x, e.freshVal(x.Type(), "substr"))
	default:
		panic(unsupported("slice of " + x.X.Type().String()))
	}
}

// zeroBacking zero-initialises the backing store row of a fresh slice.
func (e *Enc) zeroBacking(st *State, ref T, elem types.Type) {
	p := Val{Typ: types.NewPointer(types.NewArray(elem, 0)), L: []T{ref}, P: &PtrInfo{Space: "E", Root: elem, Prefix: ""}}
	at := types.NewArray(elem, 1)
	e.storeAt(st, p, e.zeroVal(at))
}

func (e *Enc) makeInterface(fr *Frame, x *ssa.MakeInterface, st *State) {
	v := e.get(fr, x.X)
	// pointer-shaped dynamic values keep their reference; other values get an opaque box
	var payload T
	if _, ok := x.X.Type().Underlying().(*types.Pointer); ok && (v.P == nil) {
		payload = v.L[0]
	} else {
		payload = e.alloc(st)
	}
	tid := e.prog.typeID(x.X.Type())
	r := e.declare(IntS, "iface")
	e.declUF("iface_type", "(Int) Int")
	e.declUF("iface_val", "(Int) Int")
	e.assert(And(Eq(T{IntS, app("iface_type", r.E)}, IntLit64(IntS, int64(tid))), Eq(T{IntS, app("iface_val", r.E)}, payload)))
	// a non-nil dynamic type makes the interface non-nil
	e.assert(Not(Eq(r, IntLit64(IntS, 0))))
	e.assert(T{BoolS, app("<", "0", r.E)})
	if len(v.L) == 1 && payload.E != v.L[0].E {
		// boxed scalar: remember its value
		name := "box_" + sanitize(v.L[0].S.String())
		e.declUF(name, "(Int) "+v.L[0].S.String())
		e.assert(Eq(T{v.L[0].S, app(name, r.E)}, v.L[0]))
	}
	rv := Val{Typ: x.Type(), L: []T{r}}
	fr.vals[x] = rv
}

func (e *Enc) declUF(name, sig string) {
	if e.ufDecl[name] {
		return
	}
	e.ufDecl[name] = true
	e.emit(fmt.Sprintf("(declare-fun %s %s)", name, sig))
}

func (e *Enc) typeAssert(fr *Frame, x *ssa.TypeAssert, guard T) {
	v := e.get(fr, x.X)
	e.declUF("iface_type", "(Int) Int")
	e.declUF("iface_val", "(Int) Int")
	var ok T
	if types.IsInterface(x.AssertedType) {
		// interface-to-interface: result unknown but nil never satisfies
		okc := e.declare(BoolS, "ta_ok")
		e.assert(Implies(okc, Not(Eq(v.L[0], IntLit64(IntS, 0)))))
		ok = okc
	} else {
		tid := e.prog.typeID(x.AssertedType)
		ok = And(Not(Eq(v.L[0], IntLit64(IntS, 0))), Eq(T{IntS, app("iface_type", v.L[0].E)}, IntLit64(IntS, int64(tid))))
	}
	var res Val
	if types.IsInterface(x.AssertedType) {
		res = Val{Typ: x.AssertedType, L: []T{Ite(ok, v.L[0], IntLit64(IntS, 0))}}
	} else if _, isPtr := x.AssertedType.Underlying().(*types.Pointer); isPtr {
		res = Val{Typ: x.AssertedType, L: []T{Ite(ok, T{IntS, app("iface_val", v.L[0].E)}, IntLit64(IntS, 0))}}
	} else {
		sh := e.shape(x.AssertedType)
		if len(sh) == 1 {
			name := "box_" + sanitize(sh[0].S.String())
			e.declUF(name, "(Int) "+sh[0].S.String())
			res = Val{Typ: x.AssertedType, L: []T{Ite(ok, T{sh[0].S, app(name, v.L[0].E)}, e.zeroLeaf(sh[0]))}}
		} else {
			res = e.freshVal(x.AssertedType, "ta")
		}
	}
	if x.CommaOk {
		fr.vals[x] = Val{Typ: x.Type(), Tup: []Val{res, {Typ: types.Typ[types.Bool], L: []T{e.define(ok, "ta_ok")}}}}
		return
	}
	e.panicGuard(fr, guard, ok, x.Pos(), "type assertion")
	e.setVal(fr, x, res)
}

func (e *Enc) panicGuard(fr *Frame, guard, okCond T, pos token.Pos, what string) {
	if e.contract != nil && e.contract.NoPanic || e.prog.checkPanics {
		e.obligeAssume("unreachable-panic", e.srcLabel(pos, what), guard, okCond, what, pos)
		return
	}
	e.assert(Implies(guard, okCond))
}
