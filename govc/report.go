package main

import (
	"encoding/json"
	"fmt"
	"os"
	"path/filepath"
	"sort"
	"strings"
)

type KnownFinding struct {
	Property   string `json:"property"`
	Obligation string `json:"obligation"` // obligation name (exact, or prefix ending in '*')
	Status     string `json:"status"`     // known | fixed
	What       string `json:"what"`
	Commit     string `json:"commit,omitempty"`
	Witness    string `json:"witness,omitempty"`
}

func loadKnown() []KnownFinding {
	b, err := os.ReadFile(filepath.Join(verifDir, "known_findings.json"))
	if err != nil {
		return nil
	}
	var k []KnownFinding
	json.Unmarshal(b, &k)
	return k
}

func matchKnown(k KnownFinding, prop, name string) bool {
	if k.Property != prop {
		return false
	}
	if strings.HasSuffix(k.Obligation, "*") {
		return strings.HasPrefix(name, strings.TrimSuffix(k.Obligation, "*"))
	}
	return k.Obligation == name
}

type sample struct {
	Obligation string  `json:"obligation"`
	Kind       string  `json:"kind"`
	Clause     string  `json:"clause,omitempty"`
	At         string  `json:"at,omitempty"`
	Status     string  `json:"status"`
	Solver     string  `json:"solver,omitempty"`
	Secs       float64 `json:"secs"`
	SMT        string  `json:"smt_file,omitempty"`
}

func report(out *CheckOutcome, plan *PropPlan, tier string, seed int, verbose, writeEvidence bool) int {
	known := loadKnown()
	level := plan.Level
	if level == "" {
		level = "proof"
	}
	var nObl, nDis, nCanary, nCanaryOK, nCover, nCoverOK int
	byBackend := map[string]int{}
	var solverTime float64
	var samples []sample
	var violations []*Obl
	var knownHit []string
	knownSeen := map[int]bool{}
	toolErrs := append([]string{}, out.ToolErrors...)
	for _, o := range out.Obls {
		r := o.Result
		if r == nil {
			toolErrs = append(toolErrs, "no result for "+o.Name)
			continue
		}
		solverTime += r.Secs
		s := sample{Obligation: o.Name, Kind: o.Kind, Clause: o.Src, At: relRepo(o.Pos), Status: r.Status, Solver: r.Solver, Secs: round3(r.Secs), SMT: r.File}
		if r.Status == "error" {
			toolErrs = append(toolErrs, "solver error on "+o.Name+": "+firstLine(r.Output))
		}
		if o.Expect == "sat" {
			if o.Kind == "canary" {
				nCanary++
				if r.Status != "unsat" {
					nCanaryOK++
				} else {
					toolErrs = append(toolErrs, "canary did not fail (vacuous context): "+o.Name)
				}
			} else {
				nCover++
				if r.Status != "unsat" {
					nCoverOK++
				} else {
					toolErrs = append(toolErrs, "vacuity: "+o.Name+" is unsatisfiable")
				}
			}
			if verbose {
				fmt.Printf("  %-8s %-7s %6.2fs %s\n", r.Status, r.Solver, r.Secs, o.Name)
			}
			continue
		}
		isKnown := false
		for i, k := range known {
			if k.Status == "known" && matchKnown(k, out.Prop, o.Name) {
				isKnown = true
				knownSeen[i] = true
				if r.Status == "unsat" {
					// the recorded finding no longer reproduces: the file must be updated, but nothing is violated
					fmt.Printf("NOTE: known finding no longer fails: property=%s %s\n", out.Prop, o.Name)
				} else {
					knownHit = append(knownHit, fmt.Sprintf("KNOWN-FINDING: property=%s %s — %s", out.Prop, o.Name, k.What))
				}
			}
		}
		if verbose || (r.Status != "unsat" && !isKnown) {
			fmt.Printf("  %-8s %-7s %6.2fs %s\n", r.Status, r.Solver, r.Secs, o.Name)
		}
		if isKnown {
			samples = append(samples, s)
			continue
		}
		nObl++
		if r.Status == "unsat" {
			nDis++
			byBackend[r.Solver]++
		} else if r.Status != "error" {
			violations = append(violations, o)
		}
		samples = append(samples, s)
	}
	for _, l := range knownHit {
		fmt.Println(l)
	}
	// replay files for violations
	var vioLines []string
	for _, o := range violations {
		path, confirmed := writeReplay(out.Prop, o)
		line := fmt.Sprintf("VIOLATION property=%s replay=%s obligation=%s", out.Prop, path, o.Name)
		if !confirmed {
			line += " no-failing-input-found"
		}
		vioLines = append(vioLines, line)
	}
	for _, u := range out.Undecided {
		fmt.Printf("UNDECIDED property=%s %s\n", out.Prop, u)
	}
	for _, t := range toolErrs {
		fmt.Printf("TOOL-ERROR property=%s %s\n", out.Prop, t)
	}
	for _, l := range vioLines {
		fmt.Println(l)
	}
	if writeEvidence {
		writeEvidenceFile(out, plan, tier, seed, level, nObl, nDis, nCanary, nCanaryOK, nCover, nCoverOK, byBackend, solverTime, samples, len(violations), knownHit)
	}
	fmt.Printf("property=%s tier=%s functions=%d obligations=%d discharged=%d canaries=%d/%d covers=%d/%d violations=%d undecided=%d tool_errors=%d wall=%.1fs (load %.1fs, solver cpu %.1fs)\n",
		out.Prop, tier, len(out.Funcs), nObl, nDis, nCanaryOK, nCanary, nCoverOK, nCover, len(violations), len(out.Undecided), len(toolErrs), out.Wall, out.LoadSecs, solverTime)
	switch {
	case len(violations) > 0:
		return 1
	case len(toolErrs) > 0 || len(out.Undecided) > 0 || nObl == 0:
		if nObl == 0 {
			fmt.Printf("TOOL-ERROR property=%s no obligations generated\n", out.Prop)
		}
		return 2
	}
	return 0
}

func round3(f float64) float64 { return float64(int(f*1000+0.5)) / 1000 }

func firstLine(s string) string {
	s = strings.TrimSpace(s)
	if i := strings.Index(s, "\n"); i >= 0 {
		s = s[:i]
	}
	if len(s) > 200 {
		s = s[:200]
	}
	return s
}

var baseAssumptions = []string{
	"sequential semantics: locks are no-ops, atomics are plain fields, select/default is a nondeterministic branch",
	"int and uint are 64 bit (amd64)",
	"dereferenced pointers are non-nil unless the contract says `check nil`",
	"strings are opaque values with equality and a dense total order; no contents",
	"NaN payloads of floating-point arithmetic results are unconstrained",
	"partial correctness: termination is not proved",
	"spare capacity after a reallocating append is not assumed to be zeroed",
	"the SSA-to-SMT translation (govc) itself is unverified; mitigations: three solvers, canaries, must-fail corpus",
	"package-level Err* variables are never reassigned and are pairwise distinct non-nil values",
	"callees without contract, body or allow-list entry are havoc (arbitrary result, arbitrary heap effect)",
	"allow-listed callees (logging, metrics, fmt, strconv, time, sync locks) do not touch modelled state",
}

func writeEvidenceFile(out *CheckOutcome, plan *PropPlan, tier string, seed int, level string, nObl, nDis, nCanary, nCanaryOK, nCover, nCoverOK int,
	byBackend map[string]int, solverTime float64, samples []sample, nViol int, knownHit []string) {
	var trusted []string
	for k := range out.Trusted {
		trusted = append(trusted, "trusted contract: "+k)
	}
	sort.Strings(trusted)
	trusted = append(trusted, "solvers: z3 4.8.12, z3 5.1.0 (z3-new), cvc5 1.0.x", "go/ssa (golang.org/x/tools v0.29.0) as the front end", "govc VC generator")
	var byContract []string
	for k := range out.ByContract {
		byContract = append(byContract, k)
	}
	sort.Strings(byContract)
	assumptions := append([]string{}, baseAssumptions...)
	seenA := map[string]bool{}
	for _, a := range out.Assumed {
		if !seenA[a] {
			seenA[a] = true
			assumptions = append(assumptions, "unchecked assumption: "+a)
		}
	}
	if len(samples) > 60 {
		// keep failures first, then a spread
		sort.SliceStable(samples, func(i, j int) bool { return samples[i].Status != "unsat" && samples[j].Status == "unsat" })
		samples = samples[:60]
	}
	cov := map[string]any{
		"obligations":                 nObl,
		"discharged":                  nDis,
		"checker_cmd":                 fmt.Sprintf("bin/govc check --prop %s --tier %s  (z3-new/z3/cvc5 race per obligation; queries under work/%s/)", out.Prop, tier, out.Prop),
		"trusted_base":                trusted,
		"functions_under_contract":    out.Funcs,
		"callees_used_by_contract":    byContract,
		"by_backend":                  byBackend,
		"solver_time_s":               round3(solverTime),
		"load_time_s":                 round3(out.LoadSecs),
		"samples":                     samples,
		"canaries":                    nCanary,
		"canaries_failed_as_expected": nCanaryOK,
		"covers":                      nCover,
		"covers_satisfiable":          nCoverOK,
		"known_findings":              knownHit,
		"undecided":                   out.Undecided,
		"deferred_to_thorough_tier":   out.ThoroughOnly,
		"unverified_parts_of_property": plan.Unverified,
		"explanation": "Contract-based deductive verification: obligations are weakest-precondition style verification conditions generated by govc from the go/ssa form of the real functions in /repo and the //@ contracts in zz_verif_contracts.go; each is discharged by an SMT solver for all inputs. " + plan.Bounded,
	}
	if nObl == 0 {
		cov["obligations"] = 0
	}
	ev := map[string]any{
		"property_id": out.Prop,
		"tier":        tier,
		"seed":        seed,
		"level":       level,
		"coverage":    cov,
		"assumptions": assumptions,
		"wall_s":      round3(out.Wall),
		"violations":  nViol,
	}
	b, _ := json.MarshalIndent(ev, "", " ")
	os.MkdirAll(filepath.Join(verifDir, "evidence"), 0o755)
	os.WriteFile(filepath.Join(verifDir, "evidence", out.Prop+".json"), b, 0o644)
}

func writeReplay(prop string, o *Obl) (string, bool) {
	dir := filepath.Join(verifDir, "replay", prop)
	os.MkdirAll(dir, 0o755)
	name := sanitizeFile(o.Name)
	path := filepath.Join(dir, name+".json")
	inputs := map[string]string{}
	if o.Result != nil && o.Result.Model != nil {
		for _, in := range o.Inputs {
			if v, ok := o.Result.Model[in.Term.E]; ok {
				inputs[in.Name] = v
			}
		}
	}
	rp := map[string]any{
		"property":      prop,
		"obligation":    o.Name,
		"kind":          o.Kind,
		"clause":        o.Src,
		"at":            relRepo(o.Pos),
		"solver_status": o.Result.Status,
		"solver":        o.Result.Solver,
		"per_solver":    o.Result.PerSolver,
		"smt_file":      o.Result.File,
		"model_inputs":  inputs,
		"solver_output": truncate(o.Result.Output, 4000),
	}
	confirmed := false
	if o.Result.Status == "sat" {
		if gofile, ok, note := tryGoReplay(prop, o, inputs, dir, name); gofile != "" {
			rp["go_replay"] = gofile
			rp["go_replay_confirmed"] = ok
			rp["go_replay_note"] = note
			confirmed = ok
		}
	}
	rp["confirmed_on_real_code"] = confirmed
	b, _ := json.MarshalIndent(rp, "", " ")
	os.WriteFile(path, b, 0o644)
	return path, confirmed
}

func truncate(s string, n int) string {
	if len(s) > n {
		return s[:n] + "..."
	}
	return s
}

func sanitizeFile(s string) string {
	var b strings.Builder
	for _, c := range s {
		switch {
		case c >= 'a' && c <= 'z', c >= 'A' && c <= 'Z', c >= '0' && c <= '9', c == '.', c == '-', c == '_':
			b.WriteRune(c)
		default:
			b.WriteByte('_')
		}
	}
	r := b.String()
	if len(r) > 150 {
		r = r[:150]
	}
	return r
}

func cmdReplay(args []string) int {
	if len(args) < 1 {
		fmt.Fprintln(os.Stderr, "usage: govc replay <file>")
		return 2
	}
	b, err := os.ReadFile(args[0])
	if err != nil {
		fmt.Fprintln(os.Stderr, err)
		return 2
	}
	var rp map[string]any
	if err := json.Unmarshal(b, &rp); err != nil {
		fmt.Fprintln(os.Stderr, err)
		return 2
	}
	fmt.Printf("obligation: %v\nclause: %v\nat: %v\nsolver: %v (%v)\ninputs: %v\n", rp["obligation"], rp["clause"], rp["at"], rp["solver"], rp["solver_status"], rp["model_inputs"])
	if g, ok := rp["go_replay"].(string); ok && g != "" {
		okc, note := runGoReplay(g)
		fmt.Printf("go replay %s: confirmed=%v\n%s\n", g, okc, note)
		if okc {
			return 1
		}
		return 0
	}
	fmt.Println("no executable replay for this obligation (no-failing-input-found); re-run the solver on", rp["smt_file"])
	return 0
}
