package main

import (
	"fmt"
	"go/token"
	"go/types"
	"strings"

	"golang.org/x/tools/go/ssa"
)

var effectFreePkgs = []string{
	"log/slog", "log", "github.com/prometheus/client_golang/", "github.com/go-kit/log", "fmt", "strconv",
	"github.com/prometheus/client_model/", "runtime", "runtime/debug", "time", "context", "unicode/utf8", "unicode",
	"go.opentelemetry.io/otel", "github.com/prometheus/common/promslog",
}

// methods on sync primitives that do not touch modelled state
var effectFreeFuncs = map[string]bool{
	"(*sync.Mutex).Lock": true, "(*sync.Mutex).Unlock": true, "(*sync.Mutex).TryLock": true,
	"(*sync.RWMutex).Lock": true, "(*sync.RWMutex).Unlock": true, "(*sync.RWMutex).RLock": true, "(*sync.RWMutex).RUnlock": true,
	"(*sync.WaitGroup).Add": true, "(*sync.WaitGroup).Done": true, "(*sync.WaitGroup).Wait": true,
	"(*sync.Once).Do":  false,
	"(*sync.Pool).Put": true, "(*sync.Pool).Get": true, "(*sync.Cond).Broadcast": true, "(*sync.Cond).Signal": true,
	"errors.New": true, "fmt.Errorf": true,
}

func pkgPathOf(fn *ssa.Function) string {
	if fn.Pkg != nil {
		return fn.Pkg.Pkg.Path()
	}
	if fn.Object() != nil && fn.Object().Pkg() != nil {
		return fn.Object().Pkg().Path()
	}
	if o := fn.Origin(); o != nil && o != fn {
		return pkgPathOf(o)
	}
	return ""
}

func (e *Enc) effectFreeFn(fn *ssa.Function) bool {
	if v, ok := effectFreeFuncs[fn.String()]; ok {
		return v
	}
	// iterator constructors of package slices only build a closure over their argument
	if s := fn.String(); strings.HasPrefix(s, "slices.Backward[") || strings.HasPrefix(s, "slices.All[") || strings.HasPrefix(s, "slices.Values[") {
		return true
	}
	p := pkgPathOf(fn)
	for _, pre := range effectFreePkgs {
		if p == pre || strings.HasPrefix(p, pre) && (strings.HasSuffix(pre, "/") || strings.HasPrefix(p[len(pre):], "/")) {
			return true
		}
	}
	return false
}

func (e *Enc) effectFreeCall(c *ssa.CallCommon) bool {
	if c.IsInvoke() {
		if p := c.Method.Pkg(); p != nil {
			for _, pre := range effectFreePkgs {
				if p.Path() == pre || strings.HasPrefix(p.Path(), pre) {
					return true
				}
			}
		}
		return false
	}
	if fn, ok := c.Value.(*ssa.Function); ok {
		return e.effectFreeFn(fn)
	}
	return false
}

func (e *Enc) call(fr *Frame, ins *ssa.Call, c *ssa.CallCommon, guard T, st *State) {
	setRes := func(vals []Val) {
		sig := c.Signature()
		switch sig.Results().Len() {
		case 0:
		case 1:
			if len(vals) == 1 {
				v := vals[0]
				v.Typ = ins.Type()
				if v.Tup == nil {
					v = e.nameVal(v, ins.Name())
				}
				fr.vals[ins] = v
			}
		default:
			fr.vals[ins] = Val{Typ: ins.Type(), Tup: vals}
		}
	}
	// ghost: remember that something with this name was called on this path
	if fr != nil && fr.depth == 0 {
		nm := ""
		if c.IsInvoke() {
			nm = c.Method.Name()
		} else if f, ok := c.Value.(*ssa.Function); ok {
			nm = f.Name()
		}
		if nm != "" {
			k := "!called|" + nm
			e.heapSorts[k] = BoolS
			st.H[k] = True
			e.markWrite(k)
			// and how often: ncalls(Name)
			kn := "!ncalls|" + nm
			old := e.heapGet(st, kn, IntS)
			st.H[kn] = e.define(T{IntS, app("+", old.E, "1")}, "ncalls")
			e.markWrite(kn)
		}
	}
	var args []Val
	if b, ok := c.Value.(*ssa.Builtin); ok {
		for _, a := range c.Args {
			args = append(args, e.get(fr, a))
		}
		r := e.builtin(fr, b, c, args, ins.Type(), guard, st, ins.Pos())
		if r != nil {
			setRes([]Val{*r})
		}
		return
	}
	if c.IsInvoke() {
		recv := e.get(fr, c.Value)
		args = append(args, recv)
		for _, a := range c.Args {
			args = append(args, e.get(fr, a))
		}
		key := "(" + types.TypeString(c.Value.Type(), func(p *types.Package) string { return p.Path() }) + ")." + c.Method.Name()
		e.callSiteAssertsInvoke(fr, c, args, guard, st, ins.Pos())
		if ct := e.prog.contractByFull(key); ct != nil {
			setRes(e.applyContract(fr, ct, nil, c.Signature(), c.Method.Name(), args, guard, st, ins.Pos()))
			return
		}
		if e.effectFreeCall(c) {
			setRes(e.freshResults(c.Signature(), ins.Name()))
			return
		}
		if e.contract != nil && e.contract.Opts["dyncalls"] == "pure" {
			e.noteAssumed(e.fnName + ": interface call " + key + " has no effect on modelled state (opt dyncalls=pure)")
			setRes(e.freshResults(c.Signature(), ins.Name()))
			return
		}
		e.interiorCallGuard(key)
		e.approximate("interface call " + key)
		e.havocAll(st, key)
		setRes(e.freshResults(c.Signature(), ins.Name()))
		return
	}
	for _, a := range c.Args {
		args = append(args, e.get(fr, a))
	}
	var fn *ssa.Function
	var bind []Val
	switch v := c.Value.(type) {
	case *ssa.Function:
		fn = v
	case *ssa.MakeClosure:
		fn = v.Fn.(*ssa.Function)
		bind = e.get(fr, v).Bind
	default:
		fv := e.get(fr, c.Value)
		if fv.Fn != nil {
			fn, bind = fv.Fn, fv.Bind
		}
	}
	if fn == nil {
		if p, isParam := c.Value.(*ssa.Parameter); isParam && e.contract != nil && e.contract.Opts["dyncalls"] == "uf" {
			// a function-typed parameter called as a predicate/function of its arguments only
			e.noteAssumed(e.fnName + ": the function parameter " + p.Name() + " is a pure function of its arguments (opt dyncalls=uf)")
			setRes(e.pureUF("dyn_"+p.Name(), args, c.Signature()))
			return
		}
		if e.contract != nil && e.contract.Opts["dyncalls"] == "pure" {
			e.assumed = append(e.assumed, e.fnName+": dynamic call through "+c.Value.Name()+" has no effect on modelled state (opt dyncalls=pure)")
			setRes(e.freshResults(c.Signature(), ins.Name()))
			return
		}
		e.interiorCallGuard("dynamic call")
		e.approximate("dynamic call " + c.Value.Name())
		e.havocAll(st, "dynamic call")
		setRes(e.freshResults(c.Signature(), ins.Name()))
		return
	}
	// call-site assertions (//@ at call N callee assert E) are evaluated before the call
	e.callSiteAsserts(fr, fn, args, guard, st, ins.Pos())
	// a function literal called directly cannot change a captured variable that neither it nor the
	// literals nested in it ever assign (and whose address it does not pass on): such variables keep
	// their value across the call even when the callee is otherwise abstracted by havoc
	type keptCell struct {
		ptr Val
		val Val
	}
	var kept []keptCell
	if mc, isMC := c.Value.(*ssa.MakeClosure); isMC && e.quantDepth == 0 && len(bind) == len(fn.FreeVars) {
		for i, fv := range fn.FreeVars {
			pt, isPtr := fv.Type().Underlying().(*types.Pointer)
			if !isPtr || !readOnlyCapture(fn, i, 0) || !captureIsLocalCell(mc.Bindings[i]) {
				continue
			}
			func() {
				defer func() {
					if r := recover(); r != nil {
						if _, isU := r.(unsupported); !isU {
							panic(r)
						}
					}
				}()
				kept = append(kept, keptCell{bind[i], e.nameVal(e.loadAt(st, bind[i], pt.Elem()), "kept_"+fv.Name())})
			}()
		}
	}
	setRes(e.callStatic(fr, fn, args, bind, guard, st, ins.Pos(), ins.Name()))
	for _, k := range kept {
		e.storeAt(st, k.ptr, k.val)
	}
	e.callSiteLets(fr, fn, ins, args, st)
}

// callSiteLets binds ghost snapshots declared with `at call N callee let name := expr`.
func (e *Enc) callSiteLets(fr *Frame, fn *ssa.Function, ins *ssa.Call, args []Val, st *State) {
	if fr == nil || fr.contract == nil || len(fr.contract.Calls) == 0 || fr.depth != 0 || e.discovery > 0 {
		return
	}
	key := fn.RelString(fr.fn.Pkg.Pkg)
	ord := fr.callOrd[key] // already counted by callSiteAsserts
	for _, cs := range fr.contract.Calls {
		if cs.Callee != key || (cs.Ord != 0 && cs.Ord != ord) || len(cs.Lets) == 0 {
			continue
		}
		sc := e.scopeAt(fr, fr.curBlock, fr.curIdx, st)
		if rv, ok := fr.vals[ins]; ok {
			if rv.Typ == nil {
				rv.Typ = ins.Type()
			}
			sc.vars["$result"] = rv
			// a multi-valued result: $result1, $result2, ... are its components
			if rv.Tup != nil {
				if tt, ok := ins.Type().(*types.Tuple); ok {
					for k, comp := range rv.Tup {
						if k < tt.Len() && comp.Typ == nil {
							comp.Typ = tt.At(k).Type()
						}
						sc.vars[fmt.Sprintf("$result%d", k+1)] = comp
					}
				}
			}
		}
		for i, a := range args {
			a.Typ = fn.Params[i].Type()
			sc.vars["$"+fn.Params[i].Name()] = a
		}
		for _, c := range cs.Lets {
			v := e.eval(sc, c.E, nil)
			if v.Tup == nil {
				v = e.nameVal(v, "ghost_"+c.Label)
			}
			fr.lets[c.Label] = v
		}
	}
}

func (e *Enc) freshResults(sig *types.Signature, hint string) []Val {
	var out []Val
	for i := 0; i < sig.Results().Len(); i++ {
		out = append(out, e.freshVal(sig.Results().At(i).Type(), "r_"+hint))
	}
	return out
}

func (e *Enc) callStatic(fr *Frame, fn *ssa.Function, args []Val, bind []Val, guard T, st *State, pos token.Pos, hint string) []Val {
	// verification primitives
	switch fn.Name() {
	case "Assert", "Assume":
		if fn.Pkg != nil && strings.HasSuffix(fn.Pkg.Pkg.Path(), "internal/verifspec") {
			if fn.Name() == "Assert" {
				lbl := e.srcLabel(pos, "assert")
				e.obligeAssume("lemma", lbl, guard, args[0].L[0], "verifspec.Assert", pos)
			} else {
				e.assert(Implies(guard, args[0].L[0]))
				e.assumed = append(e.assumed, "verifspec.Assume at "+e.srcLabel(pos, "assume"))
			}
			return nil
		}
	}
	if r, ok := e.intrinsic(fr, fn, args, guard, st, pos); ok {
		if r.Tup != nil {
			return r.Tup
		}
		if r.L == nil && r.Typ == nil {
			return nil
		}
		return []Val{r}
	}
	depth := 0
	if fr != nil {
		depth = fr.depth
	}
	ct := e.prog.contractFor(fn)
	opaque := false
	if e.contract != nil && e.contract.Opts["opaque"] != "" {
		// `opt opaque=Name1,Name2`: calls of these functions are not looked into in this function
		// (neither contract nor body): results arbitrary, everything reachable from the arguments havoc'd
		for _, nm := range strings.Split(e.contract.Opts["opaque"], ",") {
			if strings.TrimSpace(nm) == fn.Name() {
				opaque = true
			}
		}
	}
	if opaque {
		ct = nil
	}
	forceInline := false
	if e.contract != nil && e.contract.Opts["inline"] != "" && fn.Blocks != nil {
		// `opt inline=Name1,Name2`: calls of these functions are encoded from their bodies here even
		// if they have a contract of their own (which is still verified separately)
		for _, nm := range strings.Split(e.contract.Opts["inline"], ",") {
			if strings.TrimSpace(nm) == fn.Name() {
				forceInline = true
			}
		}
	}
	if e.contract != nil && e.contract.Opts["effectfree"] != "" {
		// `opt effectfree=Name1,Name2`: calls of these functions return an arbitrary result and do
		// not touch modelled state (assumption, reported in the evidence)
		for _, nm := range strings.Split(e.contract.Opts["effectfree"], ",") {
			if strings.TrimSpace(nm) == fn.Name() {
				e.noteAssumed(e.fnName + ": " + fn.String() + " has no effect on modelled state and an arbitrary result (opt effectfree)")
				return e.freshResults(fn.Signature, hint)
			}
		}
	}
	if ct != nil && !ct.Inline && !forceInline {
		return e.applyContract(fr, ct, fn, fn.Signature, fn.Name(), args, guard, st, pos)
	}
	if !opaque && fn.Blocks != nil && ((ct != nil && ct.Inline) || forceInline || bind != nil || fn.Parent() != nil || e.autoInline(fn, depth)) {
		if depth > 6 {
			panic(unsupported("inlining too deep at " + fn.String()))
		}
		path := ""
		if fr != nil {
			path = fr.path
		}
		explicit := (ct != nil && ct.Inline) || forceInline || bind != nil || fn.Parent() != nil
		if explicit {
			res, _ := e.inline(fr, fn, args, bind, guard, st, depth+1, path+">"+fn.Name())
			return res
		}
		// automatic inlining is best effort: if the callee leaves the supported subset, fall back to havoc
		if res, ok := e.tryInline(fr, fn, args, guard, st, depth+1, path+">"+fn.Name()); ok {
			return res
		}
	}
	if e.effectFreeFn(fn) {
		rs := e.freshResults(fn.Signature, hint)
		if fn.String() == "errors.New" || fn.String() == "fmt.Errorf" {
			e.assert(Not(Eq(rs[0].L[0], IntLit64(IntS, 0))))
		}
		return rs
	}
	e.interiorCallGuard(fn.String())
	e.approximate("call " + fn.String())
	// an unknown callee can only change what it can reach from its arguments (by type) and globals
	var argTypes []types.Type
	for _, p := range fn.Params {
		argTypes = append(argTypes, p.Type())
	}
	for _, fv := range fn.FreeVars {
		argTypes = append(argTypes, fv.Type())
	}
	e.havocReach(st, argTypes, fn.String())
	return e.freshResults(fn.Signature, hint)
}

// tryInline inlines fn; when the callee turns out to be unsupported everything it emitted is
// rolled back (declarations are kept, assertions and obligations dropped) and false is returned.
func (e *Enc) tryInline(fr *Frame, fn *ssa.Function, args []Val, guard T, st *State, depth int, path string) (res []Val, ok bool) {
	saveOut, saveObls, saveApprox := len(e.out), len(e.obls), len(e.approx)
	saveCells := len(e.privateCells)
	saveSt := st.clone()
	saveStack := len(e.inlineStack)
	saveSeen := map[string]int{}
	for k, v := range e.oblSeen {
		saveSeen[k] = v
	}
	defer func() {
		if r := recover(); r != nil {
			if _, isU := r.(unsupported); !isU {
				panic(r)
			}
			kept := e.out[:saveOut]
			for _, l := range e.out[saveOut:] {
				if !strings.HasPrefix(l, "(assert ") {
					kept = append(kept, l)
				}
			}
			e.out = kept
			e.obls = e.obls[:saveObls]
			e.approx = e.approx[:saveApprox]
			e.privateCells = e.privateCells[:saveCells]
			e.inlineStack = e.inlineStack[:saveStack]
			e.oblSeen = saveSeen
			*st = *saveSt
			res, ok = nil, false
		}
	}()
	e.autoDepth++
	defer func() { e.autoDepth-- }()
	res, _ = e.inline(fr, fn, args, nil, guard, st, depth, path)
	return res, true
}

func (e *Enc) autoInline(fn *ssa.Function, depth int) bool {
	if fn.Blocks == nil || depth > 4 {
		return false
	}
	p := pkgPathOf(fn)
	if e.contract != nil && e.contract.Opts["autoinline"] == "0" && strings.HasPrefix(p, "github.com/prometheus/prometheus") && len(e.inlineStack) == 0 {
		// opt autoinline=0: callees in this module are not inlined (they are havoc unless under contract);
		// atomics and math helpers still are
		return false
	}
	ok := strings.HasPrefix(p, "github.com/prometheus/prometheus") || p == "sync/atomic" || p == "go.uber.org/atomic" || p == "math" || p == "math/bits" || p == "cmp" || p == "encoding/binary"
	if !ok {
		return false
	}
	n := 0
	for _, b := range fn.Blocks {
		n += len(b.Instrs)
		for _, s := range b.Succs {
			if s.Dominates(b) {
				return false // loops need contracts
			}
		}
	}
	return n <= 120
}

// inline encodes the callee's body in the caller's context. st is updated in place.
func (e *Enc) inline(parent *Frame, fn *ssa.Function, args []Val, bind []Val, guard T, st *State, depth int, path string) ([]Val, *State) {
	for _, f := range e.inlineStack {
		if f == fn {
			panic(unsupported("recursive inlining of " + fn.String()))
		}
	}
	e.inlineStack = append(e.inlineStack, fn)
	defer func() { e.inlineStack = e.inlineStack[:len(e.inlineStack)-1] }()
	fr := e.newFrame(fn, depth, path)
	fr.bind = bind
	if parent != nil {
		fr.contract = parent.contract
		fr.entrySt = parent.entrySt
	}
	fr.contract = nil
	if c := e.prog.contractFor(fn); c != nil {
		fr.contract = c
	}
	fr.entrySt = st.clone()
	if len(args) != len(fn.Params) {
		panic(unsupported(fmt.Sprintf("arity mismatch inlining %s", fn.String())))
	}
	for i, p := range fn.Params {
		a := args[i]
		a.Typ = p.Type()
		fr.vals[p] = a
	}
	e.run(fr, fn.Blocks[0], guard, st)
	if len(fr.rets) == 0 {
		// callee never returns on this path (panics): the continuation is unreachable
		e.assert(Not(guard))
		return e.freshResults(fn.Signature, "noret"), st
	}
	res, rst := e.mergeReturns(fr)
	*st = *rst
	return res, st
}

func (e *Enc) mergeReturns(fr *Frame) ([]Val, *State) {
	var gs []T
	var sts []*State
	for _, r := range fr.rets {
		gs = append(gs, r.guard)
		sts = append(sts, r.st)
	}
	st := e.mergeStates(gs, sts)
	n := len(fr.rets[0].vals)
	res := make([]Val, n)
	for i := 0; i < n; i++ {
		v := fr.rets[len(fr.rets)-1].vals[i]
		for k := len(fr.rets) - 2; k >= 0; k-- {
			v = e.iteVal(fr.rets[k].guard, fr.rets[k].vals[i], v)
		}
		v.Typ = fr.fn.Signature.Results().At(i).Type()
		res[i] = e.nameVal(v, fr.fn.Name()+"_ret")
	}
	return res, st
}

// applyContract uses a callee's contract at a call site.
func (e *Enc) applyContract(fr *Frame, ct *FuncContract, fn *ssa.Function, sig *types.Signature, name string, args []Val, guard T, st *State, pos token.Pos) []Val {
	if !ct.Pure {
		e.interiorCallGuard(name)
	}
	sc := &Scope{st: st, old: st.clone(), vars: map[string]Val{}, pkg: e.prog.typesPkg(ct.PkgPath)}
	// bind parameter names
	if fn != nil {
		for i, p := range fn.Params {
			a := args[i]
			a.Typ = p.Type()
			sc.vars[p.Name()] = a
		}
	} else {
		// interface method: receiver is "recv", parameters by declared names
		sc.vars["recv"] = args[0]
		for i := 0; i < sig.Params().Len(); i++ {
			a := args[i+1]
			a.Typ = sig.Params().At(i).Type()
			n := sig.Params().At(i).Name()
			if n == "" || n == "_" {
				n = fmt.Sprintf("arg%d", i)
			}
			sc.vars[n] = a
		}
	}
	for _, l := range ct.Lets {
		nm, ex := splitLet(l)
		sc.vars[nm] = e.eval(sc, ex, nil)
	}
	who := name
	if fn != nil {
		who = fn.RelString(nil)
	}
	for _, r := range ct.Requires {
		t := e.evalBool(sc, r.E)
		e.obligeAssume("pre@call", who+":"+clabel(r), guard, t, r.Src, pos)
	}
	// `assume` clauses of a callee contract are invariants of its (ghost) model: taken for granted
	// at every call site instead of being demanded from the caller
	for _, a := range ct.Assume {
		e.assert(Implies(guard, e.evalBool(sc, a.E)))
	}
	pre := st.clone()
	oldVars := map[string]Val{}
	for k, v := range sc.vars {
		oldVars[k] = v
	}
	// frame
	switch {
	case ct.Pure:
	case ct.ModAll:
		e.havocAll(st, who)
	default:
		for _, m := range ct.Modifies {
			e.havocLvalue(sc, m.E, st)
		}
	}
	var res []Val
	if ct.Pure && ct.Opts["uf"] == "1" {
		// declared to be a function of its argument values only
		res = e.pureUF(who, args, sig)
	} else {
		res = e.freshResults(sig, name)
	}
	post := &Scope{st: st, old: pre, vars: map[string]Val{}, oldVars: oldVars, pkg: sc.pkg}
	for k, v := range sc.vars {
		post.vars[k] = v
	}
	e.bindResults(post, sig, res)
	// postconditions that mention the callee's own call-site snapshots (`at call ... let x`) or
	// locals cannot be stated at a call site; they are skipped there (assuming less is sound)
	calleeLets := map[string]bool{}
	for _, cs := range ct.Calls {
		for _, l := range cs.Lets {
			calleeLets[l.Label] = true
		}
	}
	for _, cu := range ct.Cuts {
		for _, l := range cu.Lets {
			calleeLets[l.Label] = true
		}
	}
	for _, en := range ct.Ensures {
		skip := false
		// ncalls()/called() count the calls made inside the function under contract; at a call site
		// they would be read against the CALLER's counters (a contradiction, i.e. an assumed false)
		if mentionsIdent(en.Src, "ncalls") || mentionsIdent(en.Src, "called") {
			skip = true
		}
		if len(calleeLets) > 0 {
			for id := range calleeLets {
				if mentionsIdent(en.Src, id) {
					skip = true
				}
			}
		}
		if skip {
			continue
		}
		t := e.evalBool(post, en.E)
		e.assert(Implies(guard, t))
	}
	for _, en := range ct.TrustedEns {
		t := e.evalBool(post, en.E)
		e.assert(Implies(guard, t))
		e.trusted[who+": "+en.Src] = true
	}
	if ct.Trusted {
		e.trusted[who] = true
	}
	e.funcsSeen[who+" (by contract)"] = true
	return res
}

func (e *Enc) bindResults(sc *Scope, sig *types.Signature, res []Val) {
	for i := 0; i < sig.Results().Len(); i++ {
		r := res[i]
		r.Typ = sig.Results().At(i).Type()
		if n := sig.Results().At(i).Name(); n != "" && n != "_" {
			sc.vars[n] = r
		}
		sc.vars[fmt.Sprintf("result%d", i+1)] = r
		if i == 0 {
			sc.vars["result"] = r
		}
	}
}

func splitLet(c *Clause) (string, CExpr) { return c.Label, c.E }

// havocLvalue gives the location(s) denoted by x arbitrary new contents.
func (e *Enc) havocLvalue(sc *Scope, x CExpr, st *State) {
	switch n := x.(type) {
	case *CSel:
		base := e.eval(sc, n.X, nil)
		if gf := e.prog.ghostField(base.Typ, n.Name); gf != nil {
			h, key, s := e.ghostFieldHeap(sc, st, base.Typ, gf)
			st.H[key] = e.define(Store(h, base.L[0], e.declare(s, "ghost_"+gf.Name)), "X")
			e.markWriteRef(key)
			e.checkFreshWrite(key, base.L[0])
			if e.writes != nil {
				// remember which object's ghost field was written (used to frame loop havocs)
				if e.writeRefs == nil {
					e.writeRefs = map[string]map[string]bool{}
				}
				if e.writeRefs[key] == nil {
					e.writeRefs[key] = map[string]bool{}
				}
				e.writeRefs[key][base.L[0].E] = true
			}
			return
		}
		pt, ok := base.Typ.Underlying().(*types.Pointer)
		if !ok {
			panic(unsupported("modifies target must go through a pointer: " + x.String()))
		}
		stt, ok := pt.Elem().Underlying().(*types.Struct)
		if !ok {
			panic(unsupported("modifies target not a struct field: " + x.String()))
		}
		pkg := sc.pkg
		if nt := namedOf(base.Typ); nt != nil && nt.Obj().Pkg() != nil {
			pkg = nt.Obj().Pkg()
		}
		obj, index, _ := types.LookupFieldOrMethod(base.Typ, true, pkg, n.Name)
		if _, ok := obj.(*types.Var); !ok || len(index) != 1 {
			panic(unsupported("modifies target field not found: " + x.String()))
		}
		fi := index[0]
		space, root, prefix, idxs, glob := e.ptrParts(base)
		fp := Val{Typ: types.NewPointer(stt.Field(fi).Type()), L: base.L, P: &PtrInfo{Space: space, Root: root, Prefix: prefix + "." + fieldName(stt, fi), Idxs: idxs, Glob: glob}}
		e.st = st
		e.storeAt(st, fp, e.freshVal(stt.Field(fi).Type(), "mod_"+n.Name))
	case *CUn:
		if n.Op == "*" {
			base := e.eval(sc, n.X, nil)
			pt := base.Typ.Underlying().(*types.Pointer)
			e.st = st
			e.storeAt(st, base, e.freshVal(pt.Elem(), "mod"))
			return
		}
		panic(unsupported("modifies target: " + x.String()))
	case *CSlice, *CIndex:
		// whole backing row of the slice is havoc'd (coarse)
		var bx CExpr
		if s, ok := n.(*CSlice); ok {
			bx = s.X
		} else {
			bx = n.(*CIndex).X
		}
		base := e.eval(sc, bx, nil)
		if mt, isMap := base.Typ.Underlying().(*types.Map); isMap {
			// m[..]: the contents of map m
			e.st = st
			dom, vals, ln, keys := e.mapHeaps(st, mt)
			ks := e.mapKeySort(mt)
			r := base.L[0]
			st.H[keys[0]] = e.define(Store(dom, r, e.declare(ArrS(ks, BoolS), "mdom")), "Md")
			sh := e.shape(mt.Elem())
			for i := range vals {
				st.H[keys[1+i]] = e.define(Store(vals[i], r, e.declare(ArrS(ks, sh[i].S), "mval")), "Mv")
			}
			nl := e.declare(e.idxSort(), "mlen")
			e.assert(e.sle(IntLit64(nl.S, 0), nl))
			st.H[keys[len(keys)-1]] = e.define(Store(ln, r, nl), "Ml")
			for _, k := range keys {
				e.markWrite(k)
			}
			return
		}
		var rowRef T
		var elemT types.Type
		if sl, ok := base.Typ.Underlying().(*types.Slice); ok {
			rowRef, elemT = base.L[0], sl.Elem()
		} else if r, et, ok := e.arrayFieldRow(sc, bx); ok {
			rowRef, elemT = r, et
		} else {
			panic(unsupported("modifies target not a slice: " + x.String()))
		}
		sl := types.NewSlice(elemT)
		p := Val{Typ: types.NewPointer(types.NewArray(sl.Elem(), 0)), L: []T{rowRef}, P: &PtrInfo{Space: "E", Root: sl.Elem(), Prefix: ""}}
		e.st = st
		at := types.NewArray(sl.Elem(), 1)
		e.storeAt(st, p, e.freshValNoInv(at, "modrow"))
	case *CIdent:
		// a pointer-typed name: everything it points to
		base := e.eval(sc, n, nil)
		if pt, ok := base.Typ.Underlying().(*types.Pointer); ok {
			e.st = st
			e.storeAt(st, base, e.freshVal(pt.Elem(), "mod_"+n.Name))
			return
		}
		panic(unsupported("modifies target: " + x.String()))
	default:
		panic(unsupported("modifies target: " + x.String()))
	}
}

// arrayFieldRow resolves `obj.arr` (an array-typed field with scalar elements) to the backing-store
// row that models it (see fieldArray).
func (e *Enc) arrayFieldRow(sc *Scope, x CExpr) (T, types.Type, bool) {
	a, ok := e.evalAddr(sc, x)
	if !ok {
		return T{}, nil, false
	}
	pt, ok := a.Typ.Underlying().(*types.Pointer)
	if !ok {
		return T{}, nil, false
	}
	at, ok := pt.Elem().Underlying().(*types.Array)
	if !ok || opaqueTypes[typeKey(pt.Elem())] {
		return T{}, nil, false
	}
	if _, basic := at.Elem().Underlying().(*types.Basic); !basic {
		return T{}, nil, false
	}
	space, root, prefix, idxs, _ := e.ptrParts(a)
	if space != "H" || len(idxs) != 0 || strings.Contains(prefix, "[]") {
		return T{}, nil, false
	}
	return e.fieldArrayRef(root, prefix+"[]", a.L[0]), at.Elem(), true
}

func (e *Enc) freshValNoInv(t types.Type, hint string) Val {
	sh := e.shape(t)
	v := Val{Typ: t, L: make([]T, len(sh))}
	for i, l := range sh {
		v.L[i] = e.declare(l.S, hint+sanitize(l.Path))
	}
	return v
}

func (e *Enc) callSiteAsserts(fr *Frame, fn *ssa.Function, args []Val, guard T, st *State, pos token.Pos) {
	if fr == nil || fr.contract == nil || len(fr.contract.Calls) == 0 || fr.depth != 0 {
		return
	}
	key := fn.RelString(fr.fn.Pkg.Pkg)
	fr.callOrd[key]++
	ord := fr.callOrd[key]
	for _, cs := range fr.contract.Calls {
		if cs.Callee != key || (cs.Ord != 0 && cs.Ord != ord) {
			continue
		}
		sc := e.scopeAt(fr, fr.curBlock, fr.curIdx, st)
		for i, a := range args {
			a.Typ = fn.Params[i].Type()
			sc.vars[fmt.Sprintf("$%d", i)] = a
			sc.vars["$"+fn.Params[i].Name()] = a
		}
		for _, c := range cs.Asserts {
			t := e.evalBool(sc, c.E)
			e.oblige("assert@call", fmt.Sprintf("%s#%d:%s", key, ord, clabel(c)), guard, t, c.Src, pos)
		}
	}
}

// callSiteAssertsInvoke is callSiteAsserts for interface method calls; the callee is named
// "(Iface).Method" relative to the function's package, arguments are $<param name> ($recv the receiver).
func (e *Enc) callSiteAssertsInvoke(fr *Frame, c *ssa.CallCommon, args []Val, guard T, st *State, pos token.Pos) {
	if fr == nil || fr.contract == nil || len(fr.contract.Calls) == 0 || fr.depth != 0 {
		return
	}
	key := "(" + types.TypeString(c.Value.Type(), types.RelativeTo(fr.fn.Pkg.Pkg)) + ")." + c.Method.Name()
	fr.callOrd[key]++
	ord := fr.callOrd[key]
	sig := c.Signature()
	for _, cs := range fr.contract.Calls {
		if cs.Callee != key || (cs.Ord != 0 && cs.Ord != ord) {
			continue
		}
		sc := e.scopeAt(fr, fr.curBlock, fr.curIdx, st)
		sc.vars["$recv"] = args[0]
		for i := 0; i < sig.Params().Len() && i+1 < len(args); i++ {
			a := args[i+1]
			a.Typ = sig.Params().At(i).Type()
			sc.vars[fmt.Sprintf("$%d", i+1)] = a
			if n := sig.Params().At(i).Name(); n != "" && n != "_" {
				sc.vars["$"+n] = a
			}
		}
		for _, cl := range cs.Asserts {
			t := e.evalBool(sc, cl.E)
			e.oblige("assert@call", fmt.Sprintf("%s#%d:%s", key, ord, clabel(cl)), guard, t, cl.Src, pos)
		}
	}
}

// cutsBefore handles //@ at stmt anchors: the anchor matches the first instruction whose
// source statement text starts with the given prefix; assertions are evaluated *after* that
// statement, i.e. before the first instruction of the following statement.
func (e *Enc) cutsBefore(fr *Frame, b *ssa.BasicBlock, i int, ins ssa.Instruction, guard T, st *State) {
	if fr.contract == nil || fr.depth != 0 || len(fr.contract.Cuts) == 0 {
		return
	}
	for _, cs := range fr.contract.Cuts {
		if e.discovery > 0 && len(cs.Lets) == 0 {
			continue
		}
		if !e.prog.anchorHit(fr.fn, cs.Anchor, cs.Before, b, i) {
			continue
		}
		sc := e.scopeAt(fr, b, i-1, st)
		if cs.Before {
			sc = e.scopeAt(fr, b, i, st)
		}
		for _, c := range cs.Lets {
			v := e.eval(sc, c.E, nil)
			if v.Tup == nil {
				v = e.nameVal(v, "ghost_"+c.Label)
			}
			fr.lets[c.Label] = v
		}
		if e.discovery > 0 {
			// write discovery only needs the ghost bindings (inner invariants may mention them)
			continue
		}
		for _, c := range cs.Assumes {
			e.assert(Implies(guard, e.evalBool(sc, c.E)))
			e.assumed = append(e.assumed, "at stmt assume: "+c.Src)
		}
		for _, c := range cs.Asserts {
			t := e.evalBool(sc, c.E)
			e.obligeAssume("assert@stmt", strings.ReplaceAll(cs.Anchor, "\x00", "#")+":"+clabel(c), guard, t, c.Src, ins.Pos())
		}
		cs.Hits++
		e.cutsLeft--
		if e.cutsLeft == 0 && e.stopAfterCuts {
			panic(stopEncoding{})
		}
	}
}

// readOnlyCapture reports whether the function literal fn (and the literals nested in it) only
// ever read its idx-th captured variable: every use of the captured cell is a load, a debug
// reference, or the capture by a nested literal for which the same holds.
func readOnlyCapture(fn *ssa.Function, idx int, depth int) bool {
	if depth > 4 || idx >= len(fn.FreeVars) {
		return false
	}
	fv := fn.FreeVars[idx]
	if fv.Referrers() == nil {
		return true
	}
	for _, r := range *fv.Referrers() {
		switch x := r.(type) {
		case *ssa.DebugRef:
		case *ssa.UnOp:
			if x.Op != token.MUL {
				return false
			}
		case *ssa.MakeClosure:
			inner, ok := x.Fn.(*ssa.Function)
			if !ok {
				return false
			}
			for j, b := range x.Bindings {
				if b == fv && !readOnlyCapture(inner, j, depth+1) {
					return false
				}
			}
		default:
			return false
		}
	}
	return true
}

// captureIsLocalCell reports whether a closure binding is the cell of a local variable of the
// enclosing function that is reachable only through that function's own literals (an Alloc, or
// the phi of the per-iteration copies of a Go 1.22 loop variable).
func captureIsLocalCell(v ssa.Value) bool {
	switch x := v.(type) {
	case *ssa.Alloc:
		return !x.Heap || closureOnly(x)
	case *ssa.Phi:
		for _, ed := range x.Edges {
			al, ok := ed.(*ssa.Alloc)
			if !ok || (al.Heap && !closureOnlyOrCopied(al)) {
				return false
			}
		}
		return len(x.Edges) > 0
	}
	return false
}

// closureOnlyOrCopied is closureOnly for per-iteration loop variable copies, whose cells are
// additionally merged by the loop-head phi.
func closureOnlyOrCopied(al *ssa.Alloc) bool {
	if al.Referrers() == nil {
		return false
	}
	for _, r := range *al.Referrers() {
		switch x := r.(type) {
		case *ssa.DebugRef, *ssa.MakeClosure, *ssa.Phi:
		case *ssa.UnOp:
			if x.Op != token.MUL {
				return false
			}
		case *ssa.Store:
			if x.Addr != al {
				return false
			}
		default:
			return false
		}
	}
	return true
}

// mentionsIdent reports whether the clause text src mentions the identifier id as a whole word.
func mentionsIdent(src, id string) bool {
	for i := 0; i+len(id) <= len(src); i++ {
		if src[i:i+len(id)] != id {
			continue
		}
		isW := func(c byte) bool {
			return c == '_' || c >= '0' && c <= '9' || c >= 'a' && c <= 'z' || c >= 'A' && c <= 'Z'
		}
		if (i == 0 || !isW(src[i-1])) && (i+len(id) == len(src) || !isW(src[i+len(id)])) {
			return true
		}
	}
	return false
}
