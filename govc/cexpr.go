package main

// Parser for the contract expression language: Go expression syntax plus
//   a ==> b, a <==> b, c ? x : y, forall i int, j int :: e, exists ..., old(e)

import (
	"fmt"
	"strings"
	"unicode"
)

type CExpr interface{ String() string }

type CIdent struct{ Name string }
type CLit struct {
	Kind string // int, float, string, char
	Val  string
}
type CBin struct {
	Op   string
	L, R CExpr
}
type CUn struct {
	Op string
	X  CExpr
}
type CCall struct {
	Fun  CExpr
	Args []CExpr
}
type CSel struct {
	X    CExpr
	Name string
}
type CIndex struct{ X, I CExpr }
type CSlice struct{ X, Lo, Hi CExpr }
type CQVar struct{ Name, Type string }
type CQuant struct {
	Forall bool
	Vars   []CQVar
	Cands  []CExpr // witness candidates for exists (hints)
	Body   CExpr
}
type CCond struct{ C, A, B CExpr }

func (e *CIdent) String() string { return e.Name }
func (e *CLit) String() string   { return e.Val }
func (e *CBin) String() string   { return "(" + e.L.String() + " " + e.Op + " " + e.R.String() + ")" }
func (e *CUn) String() string    { return e.Op + e.X.String() }
func (e *CCall) String() string {
	var a []string
	for _, x := range e.Args {
		a = append(a, x.String())
	}
	return e.Fun.String() + "(" + strings.Join(a, ", ") + ")"
}
func (e *CSel) String() string   { return e.X.String() + "." + e.Name }
func (e *CIndex) String() string { return e.X.String() + "[" + e.I.String() + "]" }
func (e *CSlice) String() string {
	lo, hi := "", ""
	if e.Lo != nil {
		lo = e.Lo.String()
	}
	if e.Hi != nil {
		hi = e.Hi.String()
	}
	return e.X.String() + "[" + lo + ":" + hi + "]"
}
func (e *CQuant) String() string {
	q := "exists"
	if e.Forall {
		q = "forall"
	}
	var vs []string
	for _, v := range e.Vars {
		vs = append(vs, v.Name+" "+v.Type)
	}
	return "(" + q + " " + strings.Join(vs, ", ") + " :: " + e.Body.String() + ")"
}
func (e *CCond) String() string {
	return "(" + e.C.String() + " ? " + e.A.String() + " : " + e.B.String() + ")"
}

type ctok struct {
	k string // id, num, str, op, eof
	v string
}

func clex(src string) ([]ctok, error) {
	var toks []ctok
	i := 0
	ops := []string{"<==>", "==>", "&^", "<<", ">>", "&&", "||", "==", "!=", "<=", ">=", "::", "..",
		"+", "-", "*", "/", "%", "&", "|", "^", "<", ">", "!", "(", ")", "[", "]", ".", ",", ":", "?", "{", "}"}
	for i < len(src) {
		c := src[i]
		if c == ' ' || c == '\t' || c == '\n' {
			i++
			continue
		}
		if unicode.IsLetter(rune(c)) || c == '_' || c == '\\' || c == '$' {
			j := i + 1
			for j < len(src) && (unicode.IsLetter(rune(src[j])) || unicode.IsDigit(rune(src[j])) || src[j] == '_' || src[j] == '$') {
				j++
			}
			toks = append(toks, ctok{"id", src[i:j]})
			i = j
			continue
		}
		if unicode.IsDigit(rune(c)) {
			j := i + 1
			for j < len(src) && (unicode.IsDigit(rune(src[j])) || unicode.IsLetter(rune(src[j])) || src[j] == '_' ||
				(src[j] == '.' && j+1 < len(src) && src[j+1] != '.') ||
				((src[j] == '+' || src[j] == '-') && (src[j-1] == 'e' || src[j-1] == 'p') && !strings.HasPrefix(src[i:j], "0x"))) {
				j++
			}
			toks = append(toks, ctok{"num", src[i:j]})
			i = j
			continue
		}
		if c == '"' {
			j := i + 1
			for j < len(src) && src[j] != '"' {
				if src[j] == '\\' {
					j++
				}
				j++
			}
			if j >= len(src) {
				return nil, fmt.Errorf("unterminated string")
			}
			toks = append(toks, ctok{"str", src[i : j+1]})
			i = j + 1
			continue
		}
		matched := false
		for _, op := range ops {
			if strings.HasPrefix(src[i:], op) {
				toks = append(toks, ctok{"op", op})
				i += len(op)
				matched = true
				break
			}
		}
		if !matched {
			return nil, fmt.Errorf("unexpected character %q in %q", c, src)
		}
	}
	toks = append(toks, ctok{"eof", ""})
	return toks, nil
}

type cparser struct {
	toks []ctok
	p    int
	src  string
}

func ParseCExpr(src string) (e CExpr, err error) {
	toks, err := clex(src)
	if err != nil {
		return nil, err
	}
	p := &cparser{toks: toks, src: src}
	defer func() {
		if r := recover(); r != nil {
			if s, ok := r.(parseErr); ok {
				err = fmt.Errorf("%s in %q", string(s), src)
				return
			}
			panic(r)
		}
	}()
	e = p.top()
	if p.peek().k != "eof" {
		p.fail("trailing tokens at " + p.peek().v)
	}
	return e, nil
}

type parseErr string

func (p *cparser) fail(m string)  { panic(parseErr(m)) }
func (p *cparser) peek() ctok     { return p.toks[p.p] }
func (p *cparser) next() ctok     { t := p.toks[p.p]; p.p++; return t }
func (p *cparser) isOp(v string) bool { t := p.peek(); return t.k == "op" && t.v == v }
func (p *cparser) expect(v string) {
	if !p.isOp(v) {
		p.fail("expected " + v + " got " + p.peek().v)
	}
	p.p++
}

func (p *cparser) top() CExpr {
	t := p.peek()
	if t.k == "id" && (t.v == "forall" || t.v == "exists") {
		p.next()
		q := &CQuant{Forall: t.v == "forall"}
		for {
			n := p.next()
			if n.k != "id" {
				p.fail("quantifier variable expected")
			}
			ty := "int"
			star := ""
			for p.isOp("*") {
				p.next()
				star += "*"
			}
			if p.peek().k == "id" {
				ty = star + p.next().v
				for p.isOp(".") {
					p.next()
					ty += "." + p.next().v
				}
			}
			q.Vars = append(q.Vars, CQVar{n.v, ty})
			if p.isOp(",") {
				p.next()
				continue
			}
			break
		}
		if p.isOp("{") {
			p.next()
			for !p.isOp("}") {
				q.Cands = append(q.Cands, p.top())
				if p.isOp(",") {
					p.next()
				}
			}
			p.expect("}")
		}
		p.expect("::")
		q.Body = p.top()
		return q
	}
	c := p.iff()
	if p.isOp("?") {
		p.next()
		a := p.top()
		p.expect(":")
		b := p.top()
		return &CCond{c, a, b}
	}
	return c
}

func (p *cparser) iff() CExpr {
	l := p.impl()
	for p.isOp("<==>") {
		p.next()
		var r CExpr
		if t := p.peek(); t.k == "id" && (t.v == "forall" || t.v == "exists") {
			r = p.top()
		} else {
			r = p.impl()
		}
		l = &CBin{"<==>", l, r}
	}
	return l
}

func (p *cparser) impl() CExpr {
	l := p.binary(1)
	if p.isOp("==>") {
		p.next()
		var r CExpr
		if t := p.peek(); t.k == "id" && (t.v == "forall" || t.v == "exists") {
			r = p.top()
		} else {
			r = p.impl()
		}
		return &CBin{"==>", l, r}
	}
	return l
}

func prec(op string) int {
	switch op {
	case "||":
		return 1
	case "&&":
		return 2
	case "==", "!=", "<", "<=", ">", ">=":
		return 3
	case "+", "-", "|", "^":
		return 4
	case "*", "/", "%", "<<", ">>", "&", "&^":
		return 5
	}
	return 0
}

func (p *cparser) binary(min int) CExpr {
	l := p.unary()
	for {
		t := p.peek()
		if t.k != "op" {
			return l
		}
		pr := prec(t.v)
		if pr == 0 || pr < min {
			return l
		}
		p.next()
		var r CExpr
		if q := p.peek(); q.k == "id" && (q.v == "forall" || q.v == "exists") {
			r = p.top()
		} else {
			r = p.binary(pr + 1)
		}
		l = &CBin{t.v, l, r}
	}
}

func (p *cparser) unary() CExpr {
	t := p.peek()
	if t.k == "op" && (t.v == "!" || t.v == "-" || t.v == "^" || t.v == "*" || t.v == "&") {
		p.next()
		return &CUn{t.v, p.unary()}
	}
	return p.postfix()
}

func (p *cparser) postfix() CExpr {
	e := p.primary()
	for {
		switch {
		case p.isOp("."):
			p.next()
			n := p.next()
			if n.k == "op" && n.v == "(" { // type assertion x.(T) unsupported
				p.fail("type assertion not supported")
			}
			e = &CSel{e, n.v}
		case p.isOp("("):
			p.next()
			var args []CExpr
			for !p.isOp(")") {
				args = append(args, p.top())
				if p.isOp(",") {
					p.next()
				}
			}
			p.expect(")")
			e = &CCall{e, args}
		case p.isOp("["):
			p.next()
			var lo, hi CExpr
			if !p.isOp(":") {
				lo = p.top()
			}
			if p.isOp(":") {
				p.next()
				if !p.isOp("]") {
					hi = p.top()
				}
				p.expect("]")
				e = &CSlice{e, lo, hi}
			} else {
				p.expect("]")
				e = &CIndex{e, lo}
			}
		default:
			return e
		}
	}
}

func (p *cparser) primary() CExpr {
	t := p.next()
	switch t.k {
	case "id":
		return &CIdent{t.v}
	case "num":
		if strings.ContainsAny(t.v, ".") || (strings.ContainsAny(t.v, "eEpP") && !strings.HasPrefix(t.v, "0x")) ||
			(strings.HasPrefix(t.v, "0x") && strings.ContainsAny(t.v, "pP")) {
			return &CLit{"float", t.v}
		}
		return &CLit{"int", t.v}
	case "str":
		return &CLit{"string", t.v}
	case "op":
		if t.v == "(" {
			e := p.top()
			p.expect(")")
			return e
		}
	}
	p.fail("unexpected token " + t.v)
	return nil
}
