package main

// SMT-LIB term construction with sort tracking. Terms are strings; every
// non-trivial SSA value is bound with define-fun so terms stay small.

import (
	"fmt"
	"math/big"
	"strings"
)

type SortKind int

const (
	SBool SortKind = iota
	SBV
	SInt
	SReal
	SArray
)

type Sort struct {
	K    SortKind
	W    int   // bit width for SBV
	Idx  *Sort // SArray
	Elem *Sort // SArray
}

var (
	BoolS = Sort{K: SBool}
	IntS  = Sort{K: SInt}
	RealS = Sort{K: SReal}
)

func BV(w int) Sort { return Sort{K: SBV, W: w} }
func ArrS(idx, elem Sort) Sort {
	i, e := idx, elem
	return Sort{K: SArray, Idx: &i, Elem: &e}
}

func (s Sort) String() string {
	switch s.K {
	case SBool:
		return "Bool"
	case SBV:
		return fmt.Sprintf("(_ BitVec %d)", s.W)
	case SInt:
		return "Int"
	case SReal:
		return "Real"
	case SArray:
		return fmt.Sprintf("(Array %s %s)", s.Idx, s.Elem)
	}
	return "?"
}

func (s Sort) Eq(o Sort) bool { return s.String() == o.String() }

// T is a typed SMT term.
type T struct {
	S Sort
	E string
}

func app(op string, args ...string) string {
	return "(" + op + " " + strings.Join(args, " ") + ")"
}

var True = T{BoolS, "true"}
var False = T{BoolS, "false"}

func BoolLit(b bool) T {
	if b {
		return True
	}
	return False
}

func And(ts ...T) T {
	var a []string
	for _, t := range ts {
		if t.E == "true" {
			continue
		}
		if t.E == "false" {
			return False
		}
		a = append(a, t.E)
	}
	switch len(a) {
	case 0:
		return True
	case 1:
		return T{BoolS, a[0]}
	}
	return T{BoolS, app("and", a...)}
}

func Or(ts ...T) T {
	var a []string
	for _, t := range ts {
		if t.E == "false" {
			continue
		}
		if t.E == "true" {
			return True
		}
		a = append(a, t.E)
	}
	switch len(a) {
	case 0:
		return False
	case 1:
		return T{BoolS, a[0]}
	}
	return T{BoolS, app("or", a...)}
}

func Not(t T) T {
	switch t.E {
	case "true":
		return False
	case "false":
		return True
	}
	return T{BoolS, app("not", t.E)}
}

func Implies(a, b T) T {
	if a.E == "true" {
		return b
	}
	if a.E == "false" || b.E == "true" {
		return True
	}
	return T{BoolS, app("=>", a.E, b.E)}
}

func Eq(a, b T) T {
	if a.E == b.E {
		return True
	}
	return T{BoolS, app("=", a.E, b.E)}
}

func Ite(c, a, b T) T {
	if c.E == "true" {
		return a
	}
	if c.E == "false" {
		return b
	}
	if a.E == b.E {
		return a
	}
	return T{a.S, app("ite", c.E, a.E, b.E)}
}

func Select(a, i T) T { return T{*a.S.Elem, app("select", a.E, i.E)} }
func Store(a, i, v T) T {
	return T{a.S, app("store", a.E, i.E, v.E)}
}

// IntLit returns an integer literal of the given sort (Int or BV).
func IntLit(s Sort, v *big.Int) T {
	switch s.K {
	case SInt:
		if v.Sign() < 0 {
			return T{s, "(- " + new(big.Int).Neg(v).String() + ")"}
		}
		return T{s, v.String()}
	case SBV:
		m := new(big.Int).Lsh(big.NewInt(1), uint(s.W))
		x := new(big.Int).Mod(v, m)
		return T{s, fmt.Sprintf("(_ bv%s %d)", x.String(), s.W)}
	case SReal:
		if v.Sign() < 0 {
			return T{s, "(- " + new(big.Int).Neg(v).String() + ".0)"}
		}
		return T{s, v.String() + ".0"}
	}
	panic("IntLit: bad sort " + s.String())
}

func IntLit64(s Sort, v int64) T { return IntLit(s, big.NewInt(v)) }

func pow2(n int) *big.Int { return new(big.Int).Lsh(big.NewInt(1), uint(n)) }

// Floating point helpers; floats are carried as bit-vectors.
func fpSort(w int) (int, int) {
	if w == 32 {
		return 8, 24
	}
	return 11, 53
}

func ToFP(t T) string {
	e, s := fpSort(t.S.W)
	return fmt.Sprintf("((_ to_fp %d %d) %s)", e, s, t.E)
}
