package main

import (
	"encoding/json"
	"go/types"
	"flag"
	"fmt"
	"os"
	"path/filepath"
	"sort"
	"strconv"
	"strings"
	"time"

	"go/ast"
	"go/token"

	"golang.org/x/tools/go/ssa"
	"golang.org/x/tools/go/ssa/ssautil"
)

type PropPlan struct {
	Pkgs       []string `json:"pkgs"`
	Level      string   `json:"level"`
	Unverified string   `json:"unverified"`
	Bounded    string   `json:"bounded,omitempty"`
}

type ReplayInfo struct {
	File      string
	Confirmed bool
	Note      string
}

var verifDir = "/verif"
var repoDir = "/repo"

func main() {
	if len(os.Args) < 2 {
		fmt.Fprintln(os.Stderr, "usage: govc check|replay|selftest|dump ...")
		os.Exit(2)
	}
	if d := os.Getenv("VERIF_DIR"); d != "" {
		verifDir = d
	}
	if d := os.Getenv("VERIF_REPO"); d != "" {
		repoDir = d
	}
	switch os.Args[1] {
	case "check":
		os.Exit(cmdCheck(os.Args[2:]))
	case "replay":
		os.Exit(cmdReplay(os.Args[2:]))
	case "selftest":
		os.Exit(cmdSelftest(os.Args[2:]))
	case "loops":
		// govc loops <pkg pattern> <function full-string substring>: list loop ordinals with source lines
		prog, err := LoadProgram(repoDir, []string{os.Args[2]}, nil)
		if err != nil {
			fmt.Println(err)
			os.Exit(2)
		}
		for fn := range ssautil.AllFunctions(prog.ssaProg) {
			if fn.Blocks == nil || !strings.Contains(fn.String(), os.Args[3]) {
				continue
			}
			loops := findLoops(fn)
			fmt.Printf("%s: %d loops\n", fn.String(), len(loops))
			var ls []*LoopInfo
			for _, l := range loops {
				ls = append(ls, l)
			}
			sort.Slice(ls, func(i, j int) bool { return ls[i].ord < ls[j].ord })
			for _, l := range ls {
				pos := token.NoPos
				for _, ins := range l.header.Instrs {
					if ins.Pos().IsValid() {
						pos = ins.Pos()
						break
					}
				}
				if !pos.IsValid() {
					for b := range l.blocks {
						for _, ins := range b.Instrs {
							if ins.Pos().IsValid() && (!pos.IsValid() || ins.Pos() < pos) {
								pos = ins.Pos()
							}
						}
					}
				}
				fmt.Printf("  loop %d: header b%d, %d blocks, %s: %s\n", l.ord, l.header.Index, len(l.blocks), prog.fset.Position(pos), prog.srcAt(pos, ""))
			}
		}
	case "parse":
		for _, f := range os.Args[2:] {
			cf, err := ParseContractFile(f, "x")
			if err != nil {
				fmt.Println("ERR", err)
				os.Exit(1)
			}
			fmt.Printf("%s: %d funcs\n", f, len(cf.Funcs))
		}
	default:
		fmt.Fprintln(os.Stderr, "unknown command")
		os.Exit(2)
	}
}

func loadPlans() (map[string]*PropPlan, error) {
	b, err := os.ReadFile(filepath.Join(verifDir, "props.json"))
	if err != nil {
		return nil, err
	}
	var m map[string]*PropPlan
	if err := json.Unmarshal(b, &m); err != nil {
		return nil, err
	}
	return m, nil
}

type FuncReport struct {
	Name      string   `json:"name"`
	File      string   `json:"file"`
	Mode      string   `json:"mode"`
	SSAInstrs int      `json:"ssa_instructions"`
	Obls      int      `json:"obligations"`
	Trusted   bool     `json:"trusted,omitempty"`
	Approx    []string `json:"approximated_by_havoc,omitempty"`
	Notes     []string `json:"notes,omitempty"`
}

type CheckOutcome struct {
	Prop        string
	Obls        []*Obl
	Funcs       []FuncReport
	Undecided   []string
	ToolErrors  []string
	Trusted     map[string]bool
	Assumed     []string
	ByContract  map[string]bool
	Wall        float64
	LoadSecs    float64
	ThoroughOnly []string
}

func cmdCheck(args []string) int {
	fs := flag.NewFlagSet("check", flag.ExitOnError)
	prop := fs.String("prop", "", "property id")
	tier := fs.String("tier", "", "quick|thorough")
	only := fs.String("only", "", "substring filter on function keys (debug)")
	keep := fs.Bool("v", false, "verbose")
	noEvidence := fs.Bool("no-evidence", false, "do not write evidence (debug)")
	fs.Parse(args)
	if *tier == "" {
		*tier = os.Getenv("VERIF_TIER")
	}
	if *tier == "" {
		*tier = "quick"
	}
	seed := 0
	if s := os.Getenv("VERIF_SEED"); s != "" {
		seed, _ = strconv.Atoi(s)
	}
	start := time.Now()
	plans, err := loadPlans()
	if err != nil {
		fmt.Fprintln(os.Stderr, "govc:", err)
		return 2
	}
	plan := plans[*prop]
	if plan == nil {
		fmt.Fprintln(os.Stderr, "govc: no plan for property", *prop)
		return 2
	}
	prog, err := LoadProgram(repoDir, plan.Pkgs, nil)
	if err != nil {
		fmt.Fprintln(os.Stderr, "govc: load failed:", err)
		return 2
	}
	loadSecs := time.Since(start).Seconds()
	out := runProperty(prog, *prop, *tier, *only, *keep)
	out.LoadSecs = loadSecs
	out.Wall = time.Since(start).Seconds()
	return report(out, plan, *tier, seed, *keep, !*noEvidence && *only == "")
}

func timeoutFor(tier string) time.Duration {
	if tier == "thorough" {
		return 120 * time.Second
	}
	return 20 * time.Second
}

// runProperty generates and discharges all obligations of one property.
func runProperty(prog *Program, prop, tier, only string, verbose bool) *CheckOutcome {
	return runPropertyIn(prog, prop, tier, only, filepath.Join(verifDir, "work", prop))
}

func runPropertyIn(prog *Program, prop, tier, only, dir string) *CheckOutcome {
	out := &CheckOutcome{Prop: prop, Trusted: map[string]bool{}, ByContract: map[string]bool{}}
	var cts []*FuncContract
	for _, cf := range prog.files {
		for _, fc := range cf.Funcs {
			for _, p := range fc.Props {
				if p == prop {
					cts = append(cts, fc)
				}
			}
		}
	}
	sort.Slice(cts, func(i, j int) bool { return fullKey(cts[i].PkgPath, cts[i].Key) < fullKey(cts[j].PkgPath, cts[j].Key) })
	if len(cts) == 0 {
		out.ToolErrors = append(out.ToolErrors, "no contracts found for "+prop)
		return out
	}
	for _, c := range cts {
		full := fullKey(c.PkgPath, c.Key)
		if only != "" && !strings.Contains(full, only) {
			continue
		}
		short := c.PkgPath[strings.LastIndex(c.PkgPath, "/")+1:] + "." + c.Key
		if c.Opts["tier"] == "thorough" && tier != "thorough" {
			// heavy obligations that only the thorough tier discharges (reported in evidence)
			out.ThoroughOnly = append(out.ThoroughOnly, short)
			continue
		}
		if c.Trusted {
			out.Trusted[short] = true
			out.Funcs = append(out.Funcs, FuncReport{Name: short, File: relRepo(c.File), Trusted: true, Notes: c.Notes})
			continue
		}
		fn := prog.findFunc(full)
		if fn == nil || fn.Blocks == nil {
			if strings.HasPrefix(c.Key, "(") && strings.Contains(full, "Iterator).") || c.Opts["interface"] == "1" {
				continue // interface method contract: used at call sites only
			}
			out.Undecided = append(out.Undecided, "function not found: "+full)
			continue
		}
		obls, rep, errs := verifyContract(prog, prop, fn, c, short)
		out.Obls = append(out.Obls, obls...)
		out.Funcs = append(out.Funcs, rep...)
		for _, e := range errs {
			if strings.HasPrefix(e, "unsupported") {
				out.Undecided = append(out.Undecided, short+": "+e)
			} else {
				out.ToolErrors = append(out.ToolErrors, short+": "+e)
			}
		}
		for _, o := range obls {
			for k := range o.Enc.trusted {
				out.Trusted[k] = true
			}
			for k := range o.Enc.funcsSeen {
				out.ByContract[k] = true
			}
			out.Assumed = append(out.Assumed, o.Enc.assumed...)
		}
	}
	os.RemoveAll(dir)
	solveAll(out.Obls, dir, timeoutFor(tier), tier == "thorough", 6)
	// second chance for obligations that ran out of time (machine load): fewer at a time, 4x the budget.
	// Definite answers (sat/unsat) are never retried.
	var again []*Obl
	for _, o := range out.Obls {
		if o.Expect != "sat" && o.Result != nil && (o.Result.Status == "timeout" || o.Result.Status == "unknown") {
			again = append(again, o)
		}
	}
	if len(again) > 0 && len(again) <= 12 {
		solveAll(again, filepath.Join(dir, "retry"), 4*timeoutFor(tier), false, 2)
	}
	return out
}

func relRepo(p string) string {
	if r, err := filepath.Rel(repoDir, p); err == nil {
		return r
	}
	return p
}

func countInstrs(fn *ssa.Function) int {
	n := 0
	for _, b := range fn.Blocks {
		n += len(b.Instrs)
	}
	return n
}

// loopSrc returns the source line of a loop's `for` statement (best effort).
func loopSrc(prog *Program, l *LoopInfo) string {
	// the innermost for/range statement of the function's syntax containing all of the loop's code
	if syn := l.header.Parent().Syntax(); syn != nil {
		var ps []token.Pos
		for b := range l.blocks {
			for _, ins := range b.Instrs {
				switch ins.(type) {
				case *ssa.Phi, *ssa.DebugRef:
					continue
				}
				if ins.Pos().IsValid() {
					ps = append(ps, ins.Pos())
				}
			}
		}
		var best ast.Node
		ast.Inspect(syn, func(n ast.Node) bool {
			switch n.(type) {
			case *ast.ForStmt, *ast.RangeStmt:
				all := len(ps) > 0
				for _, p := range ps {
					if p < n.Pos() || p >= n.End() {
						all = false
						break
					}
				}
				if all && (best == nil || (n.Pos() >= best.Pos() && n.End() <= best.End())) {
					best = n
				}
			}
			return true
		})
		if best != nil {
			return prog.srcAt(best.Pos(), "")
		}
	}
	// prefer an instruction of the loop head that sits on a `for` line
	for _, ins := range l.header.Instrs {
		if ins.Pos().IsValid() {
			if s := prog.srcAt(ins.Pos(), ""); strings.HasPrefix(s, "for ") || s == "for {" {
				return s
			}
		}
	}
	pos := token.NoPos
	for _, ins := range l.header.Instrs {
		if ins.Pos().IsValid() {
			pos = ins.Pos()
			break
		}
	}
	if !pos.IsValid() {
		for b := range l.blocks {
			for _, ins := range b.Instrs {
				if ins.Pos().IsValid() && (!pos.IsValid() || ins.Pos() < pos) {
					pos = ins.Pos()
				}
			}
		}
	}
	if !pos.IsValid() {
		return ""
	}
	return prog.srcAt(pos, "")
}

// verifyContract encodes one function under contract and returns its obligations.
func verifyContract(prog *Program, prop string, fn *ssa.Function, c *FuncContract, short string) (obls []*Obl, reps []FuncReport, errs []string) {
	onlyBody := false
	for _, o := range c.Only {
		if o == "body" {
			onlyBody = true
		}
	}
	runOne := func(label string, f func(e *Enc)) {
		e := NewEnc(prog, c.Mode)
		e.prop = prop
		e.fnName = short
		if label != "" {
			e.fnName = short + "@" + label
		}
		e.contract = c
		e.pkg = fn.Pkg
		e.topFn = fn
		func() {
			defer func() {
				if r := recover(); r != nil {
					switch x := r.(type) {
					case unsupported:
						errs = append(errs, x.Error())
					case stopEncoding:
					default:
						panic(r)
					}
				}
			}()
			f(e)
		}()
		obls = append(obls, e.obls...)
		if os.Getenv("GOVC_APPROX") != "" {
			fmt.Fprintf(os.Stderr, "approx %s: %v\n", e.fnName, e.approx)
		}
		reps = append(reps, FuncReport{Name: e.fnName, File: relRepo(prog.fset.Position(fn.Pos()).Filename), Mode: e.mode,
			SSAInstrs: countInstrs(fn), Obls: len(e.obls), Approx: e.approx, Notes: c.Notes})
	}
	// loops named by source text: resolve to ordinals
	if len(c.LoopAnchors) > 0 {
		all := findLoops(fn)
		for neg, anchor := range c.LoopAnchors {
			occ := 1
			if i := strings.IndexByte(anchor, 0); i >= 0 {
				occ, _ = strconv.Atoi(anchor[i+1:])
				anchor = anchor[:i]
			}
			var matches []int
			for _, l := range all {
				if strings.HasPrefix(normWS(loopSrc(prog, l)), normWS(anchor)) {
					matches = append(matches, l.ord)
				}
			}
			sort.Ints(matches)
			found := 0
			if occ >= 1 && occ <= len(matches) {
				found = matches[occ-1]
			}
			if found == 0 && c.LoopOptional[neg] {
				delete(c.Loops, neg) // `loop?`: the clauses only apply when the loop exists
				continue
			}
			if found == 0 {
				errs = append(errs, "unsupported: no loop of "+fn.Name()+" starts with \""+anchor+"\"")
				delete(c.Loops, neg)
				continue
			}
			spec := c.Loops[neg]
			delete(c.Loops, neg)
			if spec != nil {
				spec.Ord = found
				c.Loops[found] = spec
			}
		}
		c.LoopAnchors = nil
	}
	for _, cs := range c.Cuts {
		if !prog.anchorExists(fn, cs.Anchor, cs.Before) {
			errs = append(errs, "unsupported: anchor not found in "+fn.Name()+": "+cs.Anchor)
		}
	}
	if !onlyBody {
		runOne("", func(e *Enc) { e.verifyFunc(fn, c) })
	}
	loops := findLoops(fn)
	var ords []int
	for _, li := range loops {
		if ls := c.Loops[li.ord]; ls != nil && ls.Body {
			ords = append(ords, li.ord)
		}
	}
	sort.Ints(ords)
	for _, ord := range ords {
		for _, li := range loops {
			if li.ord == ord {
				li := li
				runOne(fmt.Sprintf("loop%d", ord), func(e *Enc) { e.verifyLoopBody(fn, c, li) })
			}
		}
	}
	for ord := range c.Loops {
		found := false
		for _, li := range loops {
			if li.ord == ord {
				found = true
			}
		}
		if !found {
			errs = append(errs, fmt.Sprintf("unsupported: contract names loop %d but %s has %d loops", ord, fn.Name(), len(loops)))
		}
	}
	for _, cs := range c.Cuts {
		if cs.Hits == 0 && len(errs) == 0 {
			errs = append(errs, "unsupported: cut at \""+cs.Anchor+"\" was never reached by any encoded region of "+fn.Name()+" (its assertions would be silently absent)")
		}
		cs.Hits = 0
	}
	return
}

func (e *Enc) verifyFunc(fn *ssa.Function, c *FuncContract) {
	fr := e.newFrame(fn, 0, "")
	fr.contract = c
	st := &State{H: map[string]T{}, ep: e.ep0}
	e.st = st
	for _, p := range fn.Params {
		v := e.freshVal(p.Type(), p.Name())
		if _, isSlice := p.Type().Underlying().(*types.Slice); isSlice && c.Opts["slicebase"] == "0" {
			// w.l.o.g.: backing-array indices are translation invariant; only sound when no other
			// slice in scope aliases this parameter's backing array (stated in the contract note)
			e.assert(Eq(v.L[1], IntLit64(v.L[1].S, 0)))
			e.assumed = append(e.assumed, e.fnName+": slice parameter "+p.Name()+" starts at index 0 of its backing array (w.l.o.g., opt slicebase=0)")
		}
		fr.vals[p] = v
		for i, l := range v.L {
			sh := e.shape(p.Type())
			e.inputs = append(e.inputs, ModelVar{Name: p.Name() + sh[i].Path, Term: l, Typ: p.Type()})
		}
	}
	var fvCells []T
	for i, fv := range fn.FreeVars {
		v := e.freshVal(fv.Type(), "fv_"+fv.Name())
		e.assert(T{BoolS, app("<", "0", v.L[0].E)})
		if _, isPtr := fv.Type().Underlying().(*types.Pointer); isPtr && len(v.L) == 1 {
			// captured variables are different variables: their cells are pairwise distinct
			for _, o := range fvCells {
				e.assert(Not(Eq(o, v.L[0])))
			}
			fvCells = append(fvCells, v.L[0])
		}
		for len(fr.bind) <= i {
			fr.bind = append(fr.bind, Val{})
		}
		fr.bind[i] = v
	}
	fr.entrySt = st.clone()
	e.cutsLeft = len(c.Cuts)
	for _, o := range c.Only {
		if o == "cuts" {
			e.stopAfterCuts = true
		}
	}
	for _, cs := range c.Cuts {
		if !e.prog.anchorExists(fn, cs.Anchor, cs.Before) {
			panic(unsupported("anchor not found: " + cs.Anchor))
		}
	}
	sc := e.scopeEntry(fr)
	for _, l := range c.Lets {
		nm, ex := splitLet(l)
		fr.lets[nm] = e.eval(sc, ex, nil)
		sc.vars[nm] = fr.lets[nm]
	}
	for _, r := range c.Requires {
		e.assert(e.evalBool(sc, r.E))
	}
	for _, r := range c.Assume {
		e.assert(e.evalBool(sc, r.E))
		e.assumed = append(e.assumed, e.fnName+": assume "+r.Src)
	}
	// vacuity: the preconditions must be satisfiable
	o := e.oblige("requires-sat", "", True, True, "preconditions satisfiable", fn.Pos())
	o.Expect = "sat"
	e.run(fr, fn.Blocks[0], True, st)
	if len(fr.rets) == 0 {
		if len(c.Ensures) > 0 {
			panic(unsupported("function has no reachable return"))
		}
		return
	}
	res, rst := e.mergeReturns(fr)
	var gs []T
	for _, r := range fr.rets {
		gs = append(gs, r.guard)
	}
	retGuard := e.define(Or(gs...), "g_ret")
	post := e.scopeEntry(fr)
	post.st = rst
	post.old = fr.entrySt
	e.bindResults(post, fn.Signature, res)
	e.st = rst
	if c.Opts["split"] == "returns" && len(fr.rets) > 1 {
		// one obligation per return statement and clause: smaller queries, finer diagnostics
		for k, r := range fr.rets {
			ps := e.scopeAt(fr, r.blk, len(r.blk.Instrs)-1, r.st)
			ps.entry = true
			ps.old = fr.entrySt
			var vals []Val
			for i, v := range r.vals {
				v.Typ = fn.Signature.Results().At(i).Type()
				vals = append(vals, v)
			}
			e.bindResults(ps, fn.Signature, vals)
			e.st = r.st
			for _, en := range c.Ensures {
				t := e.evalBool(ps, en.E)
				e.oblige("post", fmt.Sprintf("%s@return%d:%s", clabel(en), k+1, e.srcLabel(r.pos, "")), r.guard, t, en.Src, r.pos)
			}
		}
		e.st = rst
	} else {
		for _, en := range c.Ensures {
			t := e.evalBool(post, en.E)
			e.oblige("post", clabel(en), retGuard, t, en.Src, fn.Pos())
		}
	}
	for _, cn := range c.Canaries {
		t := e.evalBool(post, cn.E)
		o := e.oblige("canary", clabel(cn), retGuard, t, cn.Src, fn.Pos())
		o.Expect = "sat"
	}
	if len(c.Ensures) > 0 || len(c.Canaries) > 0 {
		o := e.oblige("cover", "return reachable", True, retGuard, "some return is reachable", fn.Pos())
		o.Expect = "sat"
	}
	for _, en := range c.TrustedEns {
		e.noteAssumed(e.fnName + ": trusted postcondition (used by callers, not verified against the body): " + en.Src)
	}
	if !c.ModAll {
		if c.Opts["frame"] == "assume" {
			e.noteAssumed(e.fnName + ": the modifies clause is assumed, not verified (opt frame=assume)")
		} else {
			e.frameObligations(fr, c, rst, retGuard)
		}
	}
}

func (e *Enc) verifyLoopBody(fn *ssa.Function, c *FuncContract, li *LoopInfo) {
	spec := c.Loops[li.ord]
	fr := e.newFrame(fn, 0, "")
	fr.contract = c
	fr.region = bodyRegion(li)
	fr.regionLoop = li
	fr.lazy = true
	st := &State{H: map[string]T{}, ep: e.ep0}
	e.st = st
	fr.entrySt = st.clone()
	for _, ins := range li.header.Instrs {
		phi, ok := ins.(*ssa.Phi)
		if !ok {
			break
		}
		v := e.freshVal(phi.Type(), phi.Comment)
		fr.vals[phi] = v
		if _, isPtr := phi.Type().Underlying().(*types.Pointer); isPtr && len(v.L) == 1 {
			// the cell of a per-iteration loop variable (Go 1.22): a local of its own, distinct from
			// every other local cell of the function
			cell := len(phi.Edges) > 0
			for _, ed := range phi.Edges {
				if al, ok := ed.(*ssa.Alloc); !ok || al.Comment != phi.Comment {
					cell = false
				}
			}
			if cell {
				e.assert(T{BoolS, app("<", "0", v.L[0].E)})
				for _, o := range e.extCells {
					e.assert(Not(Eq(o, v.L[0])))
				}
				e.extCells = append(e.extCells, v.L[0])
			}
		}
		sh := e.shape(phi.Type())
		for i, l := range v.L {
			e.inputs = append(e.inputs, ModelVar{Name: phi.Comment + sh[i].Path, Term: l, Typ: phi.Type()})
		}
	}
	sc := e.scopeAt(fr, li.header, len(li.header.Instrs)-1, st)
	// names are resolved at the loop header; the header's own phis win
	sc.idx = 0
	for i, ins := range li.header.Instrs {
		if _, ok := ins.(*ssa.Phi); ok {
			sc.idx = i
		}
	}
	for _, l := range c.Lets {
		nm, ex := splitLet(l)
		fr.lets[nm] = e.eval(sc, ex, nil)
		sc.vars[nm] = fr.lets[nm]
	}
	e.assumeRangeIndex(fr, li.header, True)
	for _, r := range spec.Invariants {
		e.assert(e.evalBool(sc, r.E))
	}
	for _, r := range spec.BodyReq {
		e.assert(e.evalBool(sc, r.E))
	}
	o := e.oblige("requires-sat", fmt.Sprintf("loop%d", li.ord), True, True, "loop-body preconditions satisfiable", li.header.Instrs[0].Pos())
	o.Expect = "sat"
	n0 := len(e.obls)
	e.runRegion(fr, li, True, st)
	if len(e.obls) == n0 && len(spec.BodyEns)+len(spec.ExitEns)+len(spec.DoneEns)+len(spec.BreakEns) > 0 {
		panic(unsupported("loop-body contract produced no obligations"))
	}
}

// frameObligations: every heap component changed by the function must be covered by a modifies clause.
func (e *Enc) frameObligations(fr *Frame, c *FuncContract, rst *State, guard T) {
	sc := e.scopeEntry(fr)
	type allowed struct {
		prefix string // key prefix
		ref    T
	}
	var allow []allowed
	for _, m := range c.Modifies {
		switch n := m.E.(type) {
		case *CSel:
			base := e.eval(sc, n.X, nil)
			if gf := e.prog.ghostField(base.Typ, n.Name); gf != nil {
				allow = append(allow, allowed{"X|" + typeKey(base.Typ) + "|" + gf.Name, base.L[0]})
				continue
			}
			pt, ok := base.Typ.Underlying().(*types.Pointer)
			_ = pt
			_ = ok
			space, root, prefix, _, glob := e.ptrParts(base)
			allow = append(allow, allowed{heapKey(space, root, glob, prefix+"."+n.Name), base.L[0]})
		case *CSlice, *CIndex:
			var bx CExpr
			if s, ok := n.(*CSlice); ok {
				bx = s.X
			} else {
				bx = n.(*CIndex).X
			}
			base := e.eval(sc, bx, nil)
			if sl, ok := base.Typ.Underlying().(*types.Slice); ok {
				allow = append(allow, allowed{"E|" + typeKey(sl.Elem()) + "|", base.L[0]})
			} else if r, et, ok := e.arrayFieldRow(sc, bx); ok {
				allow = append(allow, allowed{"E|" + typeKey(et) + "|", r})
			} else {
				panic(unsupported("modifies target: " + m.E.String()))
			}
		case *CIdent:
			base := e.eval(sc, n, nil)
			space, root, prefix, _, glob := e.ptrParts(base)
			allow = append(allow, allowed{heapKey(space, root, glob, prefix), base.L[0]})
		case *CUn:
			base := e.eval(sc, n.X, nil)
			space, root, prefix, _, glob := e.ptrParts(base)
			allow = append(allow, allowed{heapKey(space, root, glob, prefix), base.L[0]})
		}
	}
	top0 := e.epochGet(e.ep0, "!top", IntS)
	var keys []string
	for k := range rst.H {
		keys = append(keys, k)
	}
	sort.Strings(keys)
	for _, k := range keys {
		if strings.HasPrefix(k, "!") || strings.HasPrefix(k, "G|") && e.isConstGlobal(k) {
			continue
		}
		final := rst.H[k]
		init := e.epochGet(e.ep0, k, e.heapSorts[k])
		if final.E == init.E {
			continue
		}
		if strings.HasPrefix(k, "G|") {
			ok := false
			for _, a := range allow {
				if strings.HasPrefix(k, a.prefix) {
					ok = true
				}
			}
			if !ok {
				e.oblige("frame", k, guard, Eq(final, init), "global unchanged: "+k, fr.fn.Pos())
			}
			continue
		}
		e.qCtr++
		r := T{IntS, fmt.Sprintf("fr!%d", e.qCtr)}
		cond := And(T{BoolS, app("<", "0", r.E)}, T{BoolS, app("<", r.E, top0.E)})
		if strings.HasPrefix(k, "E|") {
			// rows that model array-typed fields of pre-existing objects have negative references
			cond = Or(cond, And(T{BoolS, app("<", r.E, "0")}, T{BoolS, app("<", app("-", app("*", top0.E, "1024")), r.E)}))
		}
		for _, a := range allow {
			if strings.HasPrefix(k, a.prefix) {
				cond = And(cond, Not(Eq(r, a.ref)))
			}
		}
		goal := T{BoolS, fmt.Sprintf("(forall ((%s Int)) %s)", r.E, Implies(cond, Eq(Select(final, r), Select(init, r))).E)}
		e.oblige("frame", k, guard, goal, "unchanged outside modifies: "+k, fr.fn.Pos())
	}
}
