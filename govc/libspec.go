package main

// Trusted specifications of library functions that take closures.

import (
	"fmt"
	"go/token"
	"go/types"
)

// callPred evaluates the closure f (func(int) bool) at index x in a copy of the state.
func (e *Enc) callPred(fr *Frame, f Val, x T, guard T, st *State) T {
	if f.Fn == nil || f.Fn.Blocks == nil {
		panic(unsupported("predicate argument is not a function literal"))
	}
	arg := Val{Typ: types.Typ[types.Int], L: []T{x}}
	res, _ := e.inline(fr, f.Fn, []Val{arg}, f.Bind, guard, st.clone(), 1, "pred")
	return res[0].L[0]
}

// sortSearch: sort.Search(n, f). Obligations: f is safe to call and monotone on [0, n) (so the
// binary search result is the least index). Assumed afterwards: 0 <= r <= n, r < n ==> f(r),
// forall j in [0, r): !f(j).
func (e *Enc) sortSearch(fr *Frame, args []Val, guard T, st *State, pos token.Pos) Val {
	n, f := args[0].L[0], args[1]
	is := e.idxSort()
	zero := IntLit64(is, 0)
	// 1. safety and monotonicity for arbitrary i < j in [0, n)
	i := e.declare(is, "ss_i")
	j := e.declare(is, "ss_j")
	inRange := e.define(And(guard, e.sle(zero, i), e.slt(i, j), e.slt(j, n)), "ss_g")
	fi := e.callPred(fr, f, i, inRange, st)
	fj := e.callPred(fr, f, j, inRange, st)
	e.obligeAssume("pre@call", "sort.Search:monotone predicate "+e.srcLabel(pos, ""), inRange, Implies(fi, fj), "sort.Search needs a monotone predicate", pos)
	// 2. result
	r := e.declare(is, "ss_r")
	e.assert(Implies(guard, And(e.sle(zero, r), e.sle(r, n))))
	e.specEval++
	fr0 := e.callPred(fr, f, r, And(guard, e.slt(r, n)), st)
	e.specEval--
	e.assert(Implies(And(guard, e.slt(r, n)), fr0))
	// 3. minimality, quantified
	e.qCtr++
	q := T{is, fmt.Sprintf("ssq!%d", e.qCtr)}
	e.quantDepth++
	e.specEval++
	fq := e.callPred(fr, f, q, True, st)
	e.specEval--
	e.quantDepth--
	body := Implies(And(e.sle(zero, q), e.slt(q, r)), Not(fq))
	e.assert(Implies(guard, T{BoolS, fmt.Sprintf("(forall ((%s %s)) %s)", q.E, is, body.E)}))
	// also the instance just below the result (helps solvers)
	e.specEval++
	one := IntLit64(is, 1)
	fprev := e.callPred(fr, f, e.subIdx(r, one), And(guard, e.slt(zero, r)), st)
	e.specEval--
	e.assert(Implies(And(guard, e.slt(zero, r)), Not(fprev)))
	if e.trusted != nil {
		e.trusted["sort.Search (least index of a monotone predicate; monotonicity is an obligation)"] = true
	}
	return Val{Typ: types.Typ[types.Int], L: []T{r}}
}
