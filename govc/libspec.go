package main

// Trusted specifications of library functions that take closures.

import (
	"fmt"
	"go/token"
	"go/types"

	"golang.org/x/tools/go/ssa"
)

// callPred evaluates the closure f (func(int) bool) at index x in a copy of the state.
func (e *Enc) callPred(fr *Frame, f Val, x T, guard T, st *State) T {
	if f.Fn == nil || f.Fn.Blocks == nil {
		panic(unsupported("predicate argument is not a function literal"))
	}
	arg := Val{Typ: types.Typ[types.Int], L: []T{x}}
	res, _ := e.inline(fr, f.Fn, []Val{arg}, f.Bind, guard, st.clone(), 1, "pred")
	return res[0].L[0]
}

// sortSearch: sort.Search(n, f). Obligations: f is safe to call and monotone on [0, n) (so the
// binary search result is the least index). Assumed afterwards: 0 <= r <= n, r < n ==> f(r),
// forall j in [0, r): !f(j).
func (e *Enc) sortSearch(fr *Frame, args []Val, guard T, st *State, pos token.Pos) Val {
	n, f := args[0].L[0], args[1]
	is := e.idxSort()
	zero := IntLit64(is, 0)
	// 1. safety and monotonicity for arbitrary i < j in [0, n)
	i := e.declare(is, "ss_i")
	j := e.declare(is, "ss_j")
	inRange := e.define(And(guard, e.sle(zero, i), e.slt(i, j), e.slt(j, n)), "ss_g")
	fi := e.callPred(fr, f, i, inRange, st)
	fj := e.callPred(fr, f, j, inRange, st)
	e.obligeAssume("pre@call", "sort.Search:monotone predicate "+e.srcLabel(pos, ""), inRange, Implies(fi, fj), "sort.Search needs a monotone predicate", pos)
	// 2. result
	r := e.declare(is, "ss_r")
	e.assert(Implies(guard, And(e.sle(zero, r), e.sle(r, n))))
	e.specEval++
	fr0 := e.callPred(fr, f, r, And(guard, e.slt(r, n)), st)
	e.specEval--
	e.assert(Implies(And(guard, e.slt(r, n)), fr0))
	// 3. minimality, quantified
	e.qCtr++
	q := T{is, fmt.Sprintf("ssq!%d", e.qCtr)}
	e.quantDepth++
	e.specEval++
	fq := e.callPred(fr, f, q, True, st)
	e.specEval--
	e.quantDepth--
	body := Implies(And(e.sle(zero, q), e.slt(q, r)), Not(fq))
	e.assert(Implies(guard, T{BoolS, fmt.Sprintf("(forall ((%s %s)) %s)", q.E, is, body.E)}))
	// also the instance just below the result (helps solvers)
	e.specEval++
	one := IntLit64(is, 1)
	fprev := e.callPred(fr, f, e.subIdx(r, one), And(guard, e.slt(zero, r)), st)
	e.specEval--
	e.assert(Implies(And(guard, e.slt(zero, r)), Not(fprev)))
	if e.trusted != nil {
		e.trusted["sort.Search (least index of a monotone predicate; monotonicity is an obligation)"] = true
	}
	return Val{Typ: types.Typ[types.Int], L: []T{r}}
}

// sortFunc: slices.SortFunc(s, cmp) with a function literal cmp. Trusted specification: the
// elements of s are rearranged (everything outside s[0:len] is untouched); afterwards
// cmp(s[a], s[b]) <= 0 for all a <= b, every element of the result is an element of the input
// and vice versa. (cmp is evaluated by inlining the literal; it must not write modelled state.)
func (e *Enc) sortFunc(fr *Frame, fn *ssa.Function, args []Val, guard T, st *State, pos token.Pos) {
	s, f := args[0], args[1]
	sl, ok := fn.Signature.Params().At(0).Type().Underlying().(*types.Slice)
	if !ok || e.quantDepth > 0 {
		panic(unsupported("slices.SortFunc on a non-slice"))
	}
	elem := sl.Elem()
	is := e.idxSort()
	if is.K != SInt {
		panic(unsupported("slices.SortFunc needs mode int (mathematical indices)"))
	}
	at := types.NewArray(elem, 1)
	old := e.loadAt(st, rowPtr(s.L[0], elem), at)
	nw := e.freshValNoInv(at, "sorted")
	nw.Typ = at
	e.storeAt(st, rowPtr(s.L[0], elem), nw)
	off, ln := s.L[1], s.L[2]
	e.qCtr++
	a := T{is, fmt.Sprintf("sfa!%d", e.qCtr)}
	b := T{is, fmt.Sprintf("sfb!%d", e.qCtr)}
	inA := And(e.sle(IntLit64(is, 0), a), e.slt(a, ln))
	inB := And(e.sle(IntLit64(is, 0), b), e.slt(b, ln))
	elemAt := func(row Val, i T) Val {
		v := Val{Typ: elem, L: make([]T, len(row.L))}
		for k := range row.L {
			v.L[k] = Select(row.L[k], e.elemIndex(off, i))
		}
		return v
	}
	// frame: positions outside the slice keep their contents
	for k := range nw.L {
		j := T{is, fmt.Sprintf("sfj!%d", e.qCtr)}
		out := Not(And(e.sle(off, j), e.slt(j, e.addIdx(off, ln))))
		e.emit(fmt.Sprintf("(assert (=> %s (forall ((%s Int)) (=> %s (= (select %s %s) (select %s %s))))))", guard.E, j.E, out.E, nw.L[k].E, j.E, old.L[k].E, j.E))
	}
	// sorted with respect to cmp (skipped when the comparator cannot be evaluated as a pure term, e.g. it calls unknown code)
	func() {
		saveOut := len(e.out)
		defer func() {
			if r := recover(); r != nil {
				if _, isU := r.(unsupported); !isU {
					panic(r)
				}
				e.out = e.out[:saveOut]
				e.approximate("slices.SortFunc: comparator not evaluated, order of the result unknown")
			}
		}()
		e.quantDepth++
		e.specEval++
		defer func() { e.quantDepth--; e.specEval-- }()
		res, _ := e.inline(fr, f.Fn, []Val{elemAt(nw, a), elemAt(nw, b)}, f.Bind, True, st.clone(), 1, "cmp")
		le := e.sle(res[0].L[0], IntLit64(res[0].L[0].S, 0))
		e.emit(fmt.Sprintf("(assert (=> %s (forall ((%s Int) (%s Int)) (=> %s %s))))", guard.E, a.E, b.E, And(inA, inB, e.sle(a, b)).E, le.E))
	}()
	// same elements
	same := func(x, y Val) T {
		var cs []T
		for k := range x.L {
			cs = append(cs, Eq(x.L[k], y.L[k]))
		}
		return And(cs...)
	}
	e.emit(fmt.Sprintf("(assert (=> %s (forall ((%s Int)) (=> %s (exists ((%s Int)) %s)))))", guard.E, a.E, inA.E, b.E, And(inB, same(elemAt(nw, a), elemAt(old, b))).E))
	e.emit(fmt.Sprintf("(assert (=> %s (forall ((%s Int)) (=> %s (exists ((%s Int)) %s)))))", guard.E, b.E, inB.E, a.E, And(inA, same(elemAt(nw, a), elemAt(old, b))).E))
	if e.trusted != nil {
		e.trusted["slices.SortFunc (result is sorted w.r.t. the comparator literal and has the same elements; positions outside the slice untouched)"] = true
	}
}
