package main

import (
	"bytes"
	"context"
	"fmt"
	"os"
	"os/exec"
	"path/filepath"
	"strconv"
	"strings"
	"sync"
	"time"
)

type SolveResult struct {
	Status  string // unsat, sat, unknown, timeout, error
	Solver  string
	Secs    float64
	Model   map[string]string
	Output  string
	File    string
	PerSolver map[string]string
}

type solverSpec struct {
	name string
	args []string
	logic string
}

var solvers = []solverSpec{
	{"z3-new", []string{"z3-new", "-smt2"}, ""},
	{"z3", []string{"z3", "-smt2"}, ""},
	{"cvc5", []string{"cvc5", "--lang=smt2", "--produce-models", "--fp-exp"}, "ALL"},
}

func buildQuery(o *Obl, logic string, withModel bool) string {
	family := "z3"
	if logic != "" {
		family = "cvc5"
	}
	var b strings.Builder
	if withModel {
		b.WriteString("(set-option :produce-models true)\n")
	}
	if logic != "" {
		b.WriteString("(set-logic " + logic + ")\n")
	}
	e := o.Enc
	for _, l := range e.declStrConsts() {
		b.WriteString(l + "\n")
	}
	for _, l := range e.out[:o.Prefix] {
		if strings.HasPrefix(l, "#") {
			sp := strings.IndexByte(l, ' ')
			if l[1:sp] != family {
				continue
			}
			l = l[sp+1:]
		}
		b.WriteString(l + "\n")
	}
	if o.Expect == "sat" && o.Kind != "canary" {
		b.WriteString("(assert " + And(o.Guard, o.Goal).E + ")\n")
	} else {
		b.WriteString("(assert " + And(o.Guard, Not(o.Goal)).E + ")\n")
	}
	b.WriteString("(check-sat)\n")
	if withModel && len(o.Inputs) > 0 {
		var names []string
		for _, in := range o.Inputs {
			if in.Term.S.K == SArray {
				continue
			}
			names = append(names, in.Term.E)
		}
		if len(names) > 0 {
			b.WriteString("(get-value (" + strings.Join(names, " ") + "))\n")
		}
	}
	return b.String()
}

func runSolver(ctx context.Context, sp solverSpec, file string) (string, string) {
	args := append(append([]string{}, sp.args[1:]...), file)
	cmd := exec.CommandContext(ctx, sp.args[0], args...)
	var out bytes.Buffer
	cmd.Stdout = &out
	cmd.Stderr = &out
	err := cmd.Run()
	s := out.String()
	first := strings.TrimSpace(strings.SplitN(s, "\n", 2)[0])
	switch first {
	case "sat", "unsat", "unknown":
		return first, s
	}
	if ctx.Err() != nil {
		return "timeout", s
	}
	if err != nil {
		return "error", s
	}
	return "error", s
}

// solve races the solvers on one obligation.
func solve(o *Obl, dir string, idx int, timeout time.Duration, each bool) *SolveResult {
	res := &SolveResult{PerSolver: map[string]string{}}
	start := time.Now()
	type ans struct {
		sp     solverSpec
		status string
		out    string
		file   string
	}
	if o.Enc != nil && o.Enc.contract != nil {
		// `opt timeout=N`: obligations of this function are known to be heavy (e.g. 256-bit vectors)
		if v := o.Enc.contract.Opts["timeout"]; v != "" {
			if n, err := strconv.Atoi(v); err == nil && time.Duration(n)*time.Second > timeout {
				timeout = time.Duration(n) * time.Second
			}
		}
	}
	if o.Expect == "sat" && timeout > 6*time.Second {
		timeout = 6 * time.Second // vacuity probes: anything but `unsat` is fine, do not wait long
	}
	ctx, cancel := context.WithTimeout(context.Background(), timeout)
	defer cancel()
	ch := make(chan ans, len(solvers))
	for _, sp := range solvers {
		sp := sp
		file := filepath.Join(dir, fmt.Sprintf("%04d.%s.smt2", idx, sp.name))
		q := buildQuery(o, sp.logic, true)
		if len(q) > 4<<20 {
			res.Status = "error"
			res.Output = "query exceeds size cap"
			return res
		}
		os.WriteFile(file, []byte(q), 0o644)
		go func() {
			st, out := runSolver(ctx, sp, file)
			ch <- ans{sp, st, out, file}
		}()
	}
	got := 0
	var firstUnknown *ans
	// thorough tier (each): the other solvers get a bounded grace period after the first definite
	// answer (twice the time it took, at least 10 s) instead of the whole timeout
	var grace <-chan time.Time
	for got < len(solvers) {
		var a ans
		select {
		case a = <-ch:
		case <-grace:
			cancel()
			grace = nil
			continue
		}
		got++
		res.PerSolver[a.sp.name] = a.status
		if a.status == "sat" || a.status == "unsat" {
			if res.Status == "" {
				res.Status = a.status
				res.Solver = a.sp.name
				res.Output = a.out
				res.File = a.file
				res.Secs = time.Since(start).Seconds()
				if a.status == "sat" {
					res.Model = parseValues(a.out)
				}
				if !each {
					cancel()
				} else if grace == nil {
					g := 2 * time.Since(start)
					if g < 10*time.Second {
						g = 10 * time.Second
					}
					grace = time.After(g)
				}
			} else if res.Status != a.status {
				res.Status = "error"
				res.Output = "solver disagreement: " + fmt.Sprint(res.PerSolver)
			}
			continue
		}
		if firstUnknown == nil {
			aa := a
			firstUnknown = &aa
		}
	}
	if res.Status == "" {
		res.Secs = time.Since(start).Seconds()
		res.Status = "unknown"
		allTimeout := true
		for _, s := range res.PerSolver {
			if s != "timeout" {
				allTimeout = false
			}
		}
		if allTimeout {
			res.Status = "timeout"
		}
		if firstUnknown != nil {
			res.Output = firstUnknown.out
			res.File = firstUnknown.file
			res.Solver = firstUnknown.sp.name
		}
	}
	return res
}

// parseValues parses the (get-value ...) answer: ((name value) ...)
func parseValues(out string) map[string]string {
	m := map[string]string{}
	i := strings.Index(out, "((")
	if i < 0 {
		return m
	}
	s := out[i+1:]
	// split top-level pairs
	depth := 0
	start := -1
	for k := 0; k < len(s); k++ {
		switch s[k] {
		case '(':
			if depth == 0 {
				start = k
			}
			depth++
		case ')':
			depth--
			if depth == 0 && start >= 0 {
				pair := s[start+1 : k]
				sp := strings.IndexAny(pair, " \n")
				if sp > 0 {
					m[strings.TrimSpace(pair[:sp])] = strings.TrimSpace(pair[sp+1:])
				}
				start = -1
			}
			if depth < 0 {
				return m
			}
		}
	}
	return m
}

func solveAll(obls []*Obl, dir string, timeout time.Duration, each bool, jobs int) {
	os.MkdirAll(dir, 0o755)
	var wg sync.WaitGroup
	sem := make(chan struct{}, jobs)
	for i, o := range obls {
		wg.Add(1)
		sem <- struct{}{}
		go func(i int, o *Obl) {
			defer wg.Done()
			defer func() { <-sem }()
			o.Result = solve(o, dir, i, timeout, each)
		}(i, o)
	}
	wg.Wait()
}
