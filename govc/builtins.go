package main

import (
	"fmt"
	"go/token"
	"go/types"
	"math"
	"math/big"
	"strings"

	"golang.org/x/tools/go/ssa"
)

func (e *Enc) builtin(fr *Frame, b *ssa.Builtin, c *ssa.CallCommon, args []Val, rt types.Type, guard T, st *State, pos token.Pos) *Val {
	is := e.idxSort()
	switch b.Name() {
	case "len", "cap":
		v := args[0]
		switch ut := c.Args[0].Type().Underlying().(type) {
		case *types.Slice:
			if b.Name() == "len" {
				return &Val{L: []T{v.L[2]}}
			}
			return &Val{L: []T{v.L[3]}}
		case *types.Map:
			return &Val{L: []T{e.mapLen(st, v, ut)}}
		case *types.Basic:
			e.declUF("strlen", "(Real) "+is.String())
			r := T{is, app("strlen", v.L[0].E)}
			e.assert(e.sle(IntLit64(is, 0), r))
			return &Val{L: []T{r}}
		case *types.Chan:
			r := e.freshVal(types.Typ[types.Int], "chanlen")
			e.assert(e.sle(IntLit64(is, 0), r.L[0]))
			return &r
		case *types.Pointer:
			if at, ok := ut.Elem().Underlying().(*types.Array); ok {
				return &Val{L: []T{IntLit64(is, at.Len())}}
			}
		case *types.Array:
			return &Val{L: []T{IntLit64(is, ut.Len())}}
		}
		panic(unsupported("len of " + c.Args[0].Type().String()))
	case "append":
		r := e.appendOp(fr, c, args, guard, st, pos)
		return &r
	case "copy":
		r := e.copyOp(fr, c, args, guard, st, pos)
		return &r
	case "min", "max":
		a := args[0]
		for i := 1; i < len(args); i++ {
			op := token.LSS
			if b.Name() == "max" {
				op = token.GTR
			}
			t := c.Args[0].Type()
			cv := e.binop(fr, op, a, args[i], t, t, t, guard, pos)
			if isFloat(t) {
				// NaN propagates
				anyNaN := Or(T{BoolS, app("fp.isNaN", ToFP(a.L[0]))}, T{BoolS, app("fp.isNaN", ToFP(args[i].L[0]))})
				nan := IntLit(BV(64), new(big.Int).SetUint64(math.Float64bits(math.NaN())))
				a = Val{L: []T{Ite(anyNaN, nan, Ite(cv.L[0], a.L[0], args[i].L[0]))}}
			} else {
				a = e.iteVal(cv.L[0], a, args[i])
			}
		}
		return &a
	case "delete":
		mt := c.Args[0].Type().Underlying().(*types.Map)
		e.mapDelete(st, args[0], mt, args[1])
		return nil
	case "clear":
		if mt, isMap := c.Args[0].Type().Underlying().(*types.Map); isMap {
			// clear(m): no keys left (clearing a nil map is a no-op, and a nil map already has none)
			e.mapInit(st, args[0].L[0], mt)
			return nil
		}
		if sl, isSlice := c.Args[0].Type().Underlying().(*types.Slice); isSlice {
			// clear(s): the elements of s are zeroed; coarse model: the whole backing row is havoc'd
			e.approximate("clear of a slice (its backing row is havoc'd)")
			e.havocLeafRow(st, args[0].L[0], sl.Elem())
			return nil
		}
		e.approximate("clear builtin")
		e.havocAll(st, "clear")
		return nil
	case "print", "println":
		return nil
	case "recover":
		r := e.freshVal(rt, "recover")
		return &r
	case "ssa:wrapnilchk":
		return &args[0]
	}
	panic(unsupported("builtin " + b.Name()))
}

// rowPtr returns a pointer to the whole backing row of a slice with element type elem.
func rowPtr(ref T, elem types.Type) Val {
	return Val{Typ: types.NewPointer(types.NewArray(elem, 0)), L: []T{ref}, P: &PtrInfo{Space: "E", Root: elem, Prefix: ""}}
}

// rangeCopy returns rows equal to dst except that dst[d .. d+n) = src[s .. s+n) (src read from the given rows).
func (e *Enc) rangeCopy(dst, src Val, d, s, n T) Val {
	out := Val{Typ: dst.Typ, L: make([]T, len(dst.L))}
	if v, ok := isLit(n); ok && v.IsInt64() && v.Int64() <= 8 {
		for i := range dst.L {
			cur := dst.L[i]
			for j := int64(0); j < v.Int64(); j++ {
				jj := IntLit64(d.S, j)
				cur = Store(cur, e.addIdx(d, jj), Select(src.L[i], e.addIdx(s, jj)))
			}
			out.L[i] = cur
		}
		return out
	}
	if e.quantDepth > 0 {
		panic(unsupported("range copy under quantifier"))
	}
	// name the operands so that the per-solver definitions below stay small
	d, s, n = e.define(d, "rc_d"), e.define(s, "rc_s"), e.define(n, "rc_n")
	for i := range dst.L {
		dstA, srcA := e.define(dst.L[i], "rc_dst"), e.define(src.L[i], "rc_src")
		name := e.fresh("row")
		r := T{dst.L[i].S, name}
		e.qCtr++
		j := T{d.S, fmt.Sprintf("j!%d", e.qCtr)}
		in := And(e.sle(d, j), e.slt(j, e.addIdx(d, n)))
		// read the source through the same index function as ordinary element reads (see elemIndex)
		val := Ite(in, Select(srcA, e.elemIndex(s, e.subIdx(j, d))), Select(dstA, j))
		// z3: array lambda (select reduces by beta-reduction); cvc5: constant plus quantified axiom
		e.emit(fmt.Sprintf("#z3 (define-fun %s () %s (lambda ((%s %s)) %s))", name, r.S, j.E, d.S, val.E))
		e.emit(fmt.Sprintf("#cvc5 (declare-const %s %s)", name, r.S))
		e.emit(fmt.Sprintf("#cvc5 (assert\t(forall ((%s %s)) (! (= (select %s %s) %s) :pattern ((select %s %s)))))", j.E, d.S, name, j.E, val.E, name, j.E))
		out.L[i] = r
	}
	return out
}

func (e *Enc) appendOp(fr *Frame, c *ssa.CallCommon, args []Val, guard T, st *State, pos token.Pos) Val {
	s, t := args[0], args[1]
	sl := c.Args[0].Type().Underlying().(*types.Slice)
	elem := sl.Elem()
	is := e.idxSort()
	if _, ok := c.Args[1].Type().Underlying().(*types.Slice); !ok {
		// append([]byte, string...)
		e.approximate("append of string to []byte")
		r := e.freshVal(c.Args[0].Type(), "app")
		return r
	}
	if len(t.L) == 1 { // nil constant
		return s
	}
	n := t.L[2]
	newLen := e.define(e.addIdx(s.L[2], n), "newlen")
	inPlace := e.define(e.sle(newLen, s.L[3]), "inplace")
	at := types.NewArray(elem, 1)
	srow := e.loadAt(st, rowPtr(s.L[0], elem), at)
	trow := e.loadAt(st, rowPtr(t.L[0], elem), at)
	d := e.define(e.addIdx(s.L[1], s.L[2]), "dst")
	nrow := e.rangeCopy(srow, trow, d, t.L[1], n)
	nref := e.alloc(st)
	ncap := e.declare(is, "newcap")
	e.assert(And(e.sle(newLen, ncap), e.sle(ncap, e.maxLen())))
	// length stays within the modelled maximum (allocation would fail otherwise)
	e.assert(Implies(guard, e.sle(newLen, e.maxLen())))
	ref := e.define(Ite(inPlace, s.L[0], nref), "appref")
	nrow.Typ = at
	e.storeAt(st, rowPtr(ref, elem), nrow)
	// appending to a nil/empty slice with zero capacity always reallocates
	return Val{L: []T{ref, s.L[1], newLen, e.define(Ite(inPlace, s.L[3], e.addIdx(ncap, IntLit64(is, 0))), "appcap")}}
}

func (e *Enc) copyOp(fr *Frame, c *ssa.CallCommon, args []Val, guard T, st *State, pos token.Pos) Val {
	d, s := args[0], args[1]
	dl, ok := c.Args[0].Type().Underlying().(*types.Slice)
	if !ok {
		panic(unsupported("copy to non-slice"))
	}
	if _, ok := c.Args[1].Type().Underlying().(*types.Slice); !ok {
		e.approximate("copy from string")
		e.havocLeafRow(st, d.L[0], dl.Elem())
		r := e.freshVal(types.Typ[types.Int], "copyn")
		return r
	}
	elem := dl.Elem()
	n := e.define(Ite(e.sle(d.L[2], s.L[2]), d.L[2], s.L[2]), "copyn")
	at := types.NewArray(elem, 1)
	drow := e.loadAt(st, rowPtr(d.L[0], elem), at)
	srow := e.loadAt(st, rowPtr(s.L[0], elem), at)
	nrow := e.rangeCopy(drow, srow, d.L[1], s.L[1], n)
	nrow.Typ = at
	e.storeAt(st, rowPtr(d.L[0], elem), nrow)
	return Val{L: []T{n}}
}

func (e *Enc) havocLeafRow(st *State, ref T, elem types.Type) {
	at := types.NewArray(elem, 1)
	e.storeAt(st, rowPtr(ref, elem), e.freshValNoInv(at, "hrow"))
}

// ---- maps ----
// A map value is a reference; its contents live in M|<type>|dom (key -> Bool), M|<type>|val<leaf> and M|<type>|len.

func (e *Enc) mapKeySort(mt *types.Map) Sort {
	sh := e.shape(mt.Key())
	if len(sh) != 1 {
		panic(unsupported("map with composite key " + mt.Key().String()))
	}
	return sh[0].S
}

func (e *Enc) mapHeaps(st *State, mt *types.Map) (dom T, vals []T, ln T, keys []string) {
	ks := e.mapKeySort(mt)
	k := typeKey(mt)
	dk := "M|" + k + "|dom"
	dom = e.heapGet(st, dk, ArrS(IntS, ArrS(ks, BoolS)))
	keys = append(keys, dk)
	for _, l := range e.shape(mt.Elem()) {
		vk := "M|" + k + "|val" + l.Path
		vals = append(vals, e.heapGet(st, vk, ArrS(IntS, ArrS(ks, l.S))))
		keys = append(keys, vk)
	}
	lk := "M|" + k + "|len"
	ln = e.heapGet(st, lk, ArrS(IntS, e.idxSort()))
	keys = append(keys, lk)
	return
}

func (e *Enc) mapInit(st *State, ref T, mt *types.Map) {
	dom, vals, ln, keys := e.mapHeaps(st, mt)
	ks := e.mapKeySort(mt)
	ds := ArrS(ks, BoolS)
	st.H[keys[0]] = e.define(Store(dom, ref, T{ds, fmt.Sprintf("((as const %s) false)", ds)}), "Md")
	e.markWrite(keys[0])
	sh := e.shape(mt.Elem())
	for i := range vals {
		vs := ArrS(ks, sh[i].S)
		st.H[keys[1+i]] = e.define(Store(vals[i], ref, T{vs, fmt.Sprintf("((as const %s) %s)", vs, e.zeroLeaf(sh[i]).E)}), "Mv")
		e.markWrite(keys[1+i])
	}
	st.H[keys[len(keys)-1]] = e.define(Store(ln, ref, IntLit64(e.idxSort(), 0)), "Ml")
	e.markWrite(keys[len(keys)-1])
}

func (e *Enc) mapGet(st *State, m Val, mt *types.Map, k Val) (Val, T) {
	dom, vals, _, _ := e.mapHeaps(st, mt)
	// reading a nil map finds nothing
	ok := And(Not(Eq(m.L[0], IntLit64(IntS, 0))), Select(Select(dom, m.L[0]), k.L[0]))
	sh := e.shape(mt.Elem())
	v := Val{Typ: mt.Elem(), L: make([]T, len(sh))}
	for i := range sh {
		v.L[i] = Ite(ok, Select(Select(vals[i], m.L[0]), k.L[0]), e.zeroLeaf(sh[i]))
	}
	return v, ok
}

func (e *Enc) mapLen(st *State, m Val, mt *types.Map) T {
	_, _, ln, _ := e.mapHeaps(st, mt)
	r := Select(ln, m.L[0])
	if e.quantDepth == 0 {
		e.assert(e.sle(IntLit64(e.idxSort(), 0), r))
	}
	return r
}

func (e *Enc) mapSet(st *State, m Val, mt *types.Map, k, v Val) {
	dom, vals, ln, keys := e.mapHeaps(st, mt)
	r := m.L[0]
	had := Select(Select(dom, r), k.L[0])
	one := IntLit64(e.idxSort(), 1)
	st.H[keys[len(keys)-1]] = e.define(Store(ln, r, Ite(had, Select(ln, r), e.addIdx(Select(ln, r), one))), "Ml")
	st.H[keys[0]] = e.define(Store(dom, r, Store(Select(dom, r), k.L[0], True)), "Md")
	for i := range vals {
		st.H[keys[1+i]] = e.define(Store(vals[i], r, Store(Select(vals[i], r), k.L[0], v.L[i])), "Mv")
	}
	for _, k := range keys {
		e.markWrite(k)
	}
}

func (e *Enc) mapDelete(st *State, m Val, mt *types.Map, k Val) {
	dom, _, ln, keys := e.mapHeaps(st, mt)
	r := m.L[0]
	had := Select(Select(dom, r), k.L[0])
	one := IntLit64(e.idxSort(), 1)
	st.H[keys[len(keys)-1]] = e.define(Store(ln, r, Ite(had, e.subIdx(Select(ln, r), one), Select(ln, r))), "Ml")
	st.H[keys[0]] = e.define(Store(dom, r, Store(Select(dom, r), k.L[0], False)), "Md")
	e.markWrite(keys[0])
	e.markWrite(keys[len(keys)-1])
}

func (e *Enc) mapUpdate(fr *Frame, x *ssa.MapUpdate, guard T, st *State) {
	mt := x.Map.Type().Underlying().(*types.Map)
	m, k, v := e.get(fr, x.Map), e.get(fr, x.Key), e.get(fr, x.Value)
	e.mapSet(st, m, mt, k, v)
}

func (e *Enc) lookup(fr *Frame, x *ssa.Lookup, guard T, st *State) {
	switch mt := x.X.Type().Underlying().(type) {
	case *types.Map:
		m, k := e.get(fr, x.X), e.get(fr, x.Index)
		v, ok := e.mapGet(st, m, mt, k)
		// nil map reads yield zero values
		if x.CommaOk {
			fr.vals[x] = Val{Typ: x.Type(), Tup: []Val{e.nameVal(v, x.Name()), {Typ: types.Typ[types.Bool], L: []T{e.define(ok, "mapok")}}}}
			return
		}
		e.setVal(fr, x, v)
	default:
		e.approximate("string index lookup")
		e.setVal2(fr, x, e.freshVal(x.Type(), "lookup"))
	}
}

func (e *Enc) rangeInit(fr *Frame, x *ssa.Range, st *State) {
	fr.vals[x] = Val{Typ: x.Type(), L: []T{IntLit64(IntS, 0)}}
}

func (e *Enc) rangeNext(fr *Frame, x *ssa.Next, guard T, st *State) {
	rng := x.Iter.(*ssa.Range)
	tup := x.Type().(*types.Tuple)
	ok := e.declare(BoolS, "next_ok")
	if mt, isMap := rng.X.Type().Underlying().(*types.Map); isMap && !x.IsString {
		m := e.get(fr, rng.X)
		kt := tup.At(1).Type()
		if b, isB := kt.(*types.Basic); isB && b.Kind() == types.Invalid {
			kt = mt.Key()
		}
		k := e.freshVal(kt, "next_k")
		if len(k.L) != 1 {
			panic(unsupported("range over map with composite key"))
		}
		v, has := e.mapGet(st, m, mt, Val{Typ: mt.Key(), L: k.L})
		e.assert(Implies(ok, has))
		vv := v
		if b, isB := tup.At(2).Type().(*types.Basic); isB && b.Kind() == types.Invalid {
			// value not used by the range statement
			vv = Val{Typ: tup.At(2).Type()}
		} else if len(e.shape(tup.At(2).Type())) != len(v.L) {
			vv = e.freshVal(tup.At(2).Type(), "next_v")
		}
		fr.vals[x] = Val{Typ: x.Type(), Tup: []Val{{Typ: types.Typ[types.Bool], L: []T{ok}}, k, e.nameVal(vv, "next_v")}}
		return
	}
	e.approximate("range over string")
	fr.vals[x] = Val{Typ: x.Type(), Tup: []Val{{Typ: types.Typ[types.Bool], L: []T{ok}}, e.freshVal(tup.At(1).Type(), "next_i"), e.freshVal(tup.At(2).Type(), "next_r")}}
}

// ---- intrinsics ----

func (e *Enc) intrinsic(fr *Frame, fn *ssa.Function, args []Val, guard T, st *State, pos token.Pos) (Val, bool) {
	name := fn.String()
	f64 := types.Typ[types.Float64]
	one := func(t T, ty types.Type) (Val, bool) { return Val{Typ: ty, L: []T{t}}, true }
	switch name {
	case "math.Float64bits":
		return one(args[0].L[0], types.Typ[types.Uint64])
	case "math.Float64frombits":
		return one(args[0].L[0], f64)
	case "math.Float32bits":
		return one(args[0].L[0], types.Typ[types.Uint32])
	case "math.Float32frombits":
		return one(args[0].L[0], types.Typ[types.Float32])
	case "math.IsNaN":
		return one(T{BoolS, app("fp.isNaN", ToFP(args[0].L[0]))}, types.Typ[types.Bool])
	case "math.IsInf":
		x := ToFP(args[0].L[0])
		sgn := args[1].L[0]
		z := IntLit64(sgn.S, 0)
		pos := And(T{BoolS, app("fp.isInfinite", x)}, T{BoolS, app("fp.isPositive", x)})
		neg := And(T{BoolS, app("fp.isInfinite", x)}, T{BoolS, app("fp.isNegative", x)})
		return one(Or(And(e.sle(z, sgn), pos), And(e.sle(sgn, z), neg)), types.Typ[types.Bool])
	case "math.Inf":
		sgn := args[0].L[0]
		pinf := IntLit(BV(64), new(big.Int).SetUint64(math.Float64bits(math.Inf(1))))
		ninf := IntLit(BV(64), new(big.Int).SetUint64(math.Float64bits(math.Inf(-1))))
		return one(Ite(e.sle(IntLit64(sgn.S, 0), sgn), pinf, ninf), f64)
	case "math.NaN":
		return one(IntLit(BV(64), new(big.Int).SetUint64(0x7FF8000000000001)), f64)
	case "math.Abs":
		return one(T{BV(64), app("bvand", args[0].L[0].E, "#x7fffffffffffffff")}, f64)
	case "math.Signbit":
		return one(Eq(T{BV(1), "((_ extract 63 63) " + args[0].L[0].E + ")"}, T{BV(1), "#b1"}), types.Typ[types.Bool])
	case "math.Floor", "math.Ceil", "math.Trunc", "math.Round", "math.RoundToEven":
		rm := map[string]string{"math.Floor": "RTN", "math.Ceil": "RTP", "math.Trunc": "RTZ", "math.Round": "RNA", "math.RoundToEven": "RNE"}[name]
		x := args[0].L[0]
		r := e.fpResult(app("fp.roundToIntegral", rm, ToFP(x)), 64)
		// NaN and sign of zero are preserved bit-exactly by Go for these inputs: keep NaN payload
		return one(Ite(T{BoolS, app("fp.isNaN", ToFP(x))}, x, r), f64)
	case "math.Sqrt":
		return one(e.fpResult(app("fp.sqrt", "RNE", ToFP(args[0].L[0])), 64), f64)
	case "math/bits.LeadingZeros64", "math/bits.TrailingZeros64", "math/bits.Len64", "math/bits.LeadingZeros32", "math/bits.TrailingZeros32", "math/bits.Len32", "math/bits.LeadingZeros8", "math/bits.Len8", "math/bits.LeadingZeros16", "math/bits.Len16", "math/bits.TrailingZeros8", "math/bits.TrailingZeros16":
		x := args[0].L[0]
		if x.S.K != SBV {
			panic(unsupported(name + " in int mode"))
		}
		w := x.S.W
		rs := e.idxSort()
		if w == 64 && rs.K == SBV && rs.W == 64 && e.quantDepth == 0 && (name == "math/bits.LeadingZeros64" || name == "math/bits.TrailingZeros64") {
			// relational definition (one fresh result constrained to be the unique answer): much
			// lighter for the solvers than a 64-way priority encoder
			x = e.define(x, "clzarg")
			r := e.declare(rs, "zeros")
			isZero := Eq(x, IntLit64(x.S, 0))
			sh := T{BV(64), app("bvsub", "(_ bv63 64)", r.E)}
			var def T
			if name == "math/bits.LeadingZeros64" {
				def = Eq(T{BV(64), app("bvlshr", x.E, sh.E)}, IntLit64(BV(64), 1))
			} else {
				def = Eq(T{BV(64), app("bvshl", x.E, sh.E)}, T{BV(64), "#x8000000000000000"})
			}
			e.assert(Ite(isZero, Eq(r, IntLit64(rs, 64)), And(T{BoolS, app("bvult", r.E, "(_ bv64 64)")}, def)))
			return one(r, types.Typ[types.Int])
		}
		var r T
		switch {
		case strings.Contains(name, "Leading"):
			r = IntLit64(rs, int64(w))
			for i := 0; i < w; i++ { // bit i set => lz = w-1-i ; highest wins (applied last)
				bit := Eq(T{BV(1), fmt.Sprintf("((_ extract %d %d) %s)", i, i, x.E)}, T{BV(1), "#b1"})
				r = Ite(bit, IntLit64(rs, int64(w-1-i)), r)
			}
		case strings.Contains(name, "Trailing"):
			r = IntLit64(rs, int64(w))
			for i := w - 1; i >= 0; i-- {
				bit := Eq(T{BV(1), fmt.Sprintf("((_ extract %d %d) %s)", i, i, x.E)}, T{BV(1), "#b1"})
				r = Ite(bit, IntLit64(rs, int64(i)), r)
			}
		default: // Len
			r = IntLit64(rs, 0)
			for i := 0; i < w; i++ {
				bit := Eq(T{BV(1), fmt.Sprintf("((_ extract %d %d) %s)", i, i, x.E)}, T{BV(1), "#b1"})
				r = Ite(bit, IntLit64(rs, int64(i+1)), r)
			}
		}
		return one(e.define(r, "bits"), types.Typ[types.Int])
	case "(time.Time).IsZero", "(time.Time).Sub", "(time.Time).Before", "(time.Time).After", "(time.Time).Equal", "(time.Time).Add", "(time.Time).UnixNano":
		// trusted model: a time.Time denotes an instant tnano(wall, ext) in int64 nanoseconds; the
		// zero Time is tnano(0,0); Sub is the (wrapping, not saturating) difference; Add yields
		// some Time at instant+d.
		if args[0].L[0].S.K != SBV {
			panic(unsupported("time.Time intrinsics need mode bv/mix"))
		}
		e.declUF("tnano", "((_ BitVec 64) (_ BitVec 64)) (_ BitVec 64)")
		e.trusted["time.Time as int64 nanoseconds (IsZero/Sub/Add/Before/After/Equal)"] = true
		inst := func(v Val) T { return T{BV(64), app("tnano", v.L[0].E, v.L[1].E)} }
		zero := T{BV(64), app("tnano", "(_ bv0 64)", "(_ bv0 64)")}
		t0 := inst(args[0])
		switch name {
		case "(time.Time).IsZero":
			return one(Eq(t0, zero), types.Typ[types.Bool])
		case "(time.Time).UnixNano":
			return one(T{BV(64), app("bvsub", t0.E, zero.E)}, types.Typ[types.Int64])
		case "(time.Time).Sub":
			return one(T{BV(64), app("bvsub", t0.E, inst(args[1]).E)}, fn.Signature.Results().At(0).Type())
		case "(time.Time).Before":
			return one(T{BoolS, app("bvslt", t0.E, inst(args[1]).E)}, types.Typ[types.Bool])
		case "(time.Time).After":
			return one(T{BoolS, app("bvsgt", t0.E, inst(args[1]).E)}, types.Typ[types.Bool])
		case "(time.Time).Equal":
			return one(Eq(t0, inst(args[1])), types.Typ[types.Bool])
		case "(time.Time).Add":
			r := e.freshVal(fn.Signature.Results().At(0).Type(), "tadd")
			e.assert(Implies(guard, Eq(inst(r), T{BV(64), app("bvadd", t0.E, args[1].L[0].E)})))
			return r, true
		}
	case "sort.Search":
		return e.sortSearch(fr, args, guard, st, pos), true
	}
	if strings.HasPrefix(name, "slices.SortFunc[") || strings.HasPrefix(name, "slices.SortStableFunc[") {
		if len(args) == 2 && args[1].Fn != nil && args[1].Fn.Blocks != nil {
			e.sortFunc(fr, fn, args, guard, st, pos)
			return Val{}, true
		}
	}
	switch name {
	case "errors.Is":
		a, b := args[0].L[0], args[1].L[0]
		e.declUF("err_wraps", "(Int Int) Bool")
		e.assert(Not(T{BoolS, app("err_wraps", "0", b.E)}))
		return one(And(Not(Eq(a, IntLit64(IntS, 0))), e.errIs(a, b)), types.Typ[types.Bool])
	case "sync/atomic.LoadInt64", "sync/atomic.LoadUint64", "sync/atomic.LoadInt32", "sync/atomic.LoadUint32", "sync/atomic.LoadUintptr", "sync/atomic.LoadPointer":
		pt := fn.Signature.Params().At(0).Type().Underlying().(*types.Pointer)
		return e.loadAt(st, args[0], pt.Elem()), true
	case "sync/atomic.StoreInt64", "sync/atomic.StoreUint64", "sync/atomic.StoreInt32", "sync/atomic.StoreUint32", "sync/atomic.StoreUintptr", "sync/atomic.StorePointer":
		pt := fn.Signature.Params().At(0).Type().Underlying().(*types.Pointer)
		v := args[1]
		v.Typ = pt.Elem()
		e.storeAt(st, args[0], v)
		return Val{}, true
	case "sync/atomic.AddInt64", "sync/atomic.AddUint64", "sync/atomic.AddInt32", "sync/atomic.AddUint32":
		pt := fn.Signature.Params().At(0).Type().Underlying().(*types.Pointer)
		old := e.loadAt(st, args[0], pt.Elem())
		nv := e.binop(fr, token.ADD, old, args[1], pt.Elem(), pt.Elem(), pt.Elem(), guard, pos)
		nv = e.nameVal(nv, "atomadd")
		nv.Typ = pt.Elem()
		e.storeAt(st, args[0], nv)
		return nv, true
	case "sync/atomic.SwapInt64", "sync/atomic.SwapUint64", "sync/atomic.SwapInt32", "sync/atomic.SwapUint32":
		pt := fn.Signature.Params().At(0).Type().Underlying().(*types.Pointer)
		old := e.loadAt(st, args[0], pt.Elem())
		v := args[1]
		v.Typ = pt.Elem()
		e.storeAt(st, args[0], v)
		return old, true
	case "sync/atomic.CompareAndSwapInt64", "sync/atomic.CompareAndSwapUint64", "sync/atomic.CompareAndSwapInt32", "sync/atomic.CompareAndSwapUint32":
		pt := fn.Signature.Params().At(0).Type().Underlying().(*types.Pointer)
		old := e.loadAt(st, args[0], pt.Elem())
		eq := e.define(Eq(old.L[0], args[1].L[0]), "cas")
		nv := Val{Typ: pt.Elem(), L: []T{Ite(eq, args[2].L[0], old.L[0])}}
		e.storeAt(st, args[0], nv)
		return one(eq, types.Typ[types.Bool])
	}
	return Val{}, false
}
