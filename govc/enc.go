package main

// Guarded-SSA encoding of one function (or one loop region) into SMT-LIB.

import (
	"fmt"
	"go/token"
	"go/types"
	"os"
	"sort"
	"strings"

	"golang.org/x/tools/go/ssa"
)

type Obl struct {
	Name    string
	Kind    string
	Prefix  int // number of emitted lines that form the context
	Guard   T
	Goal    T
	Expect  string // "unsat" (normal) or "sat" (canary / cover)
	Src     string
	Pos     string
	Fn      string
	Inputs  []ModelVar
	Result  *SolveResult
	Enc     *Enc
	Replay  *ReplayInfo
}

type ModelVar struct {
	Name string // Go-level name (parameter or field path)
	Term T
	Typ  types.Type
}

type Enc struct {
	prog      *Program
	mode      string
	out       []string
	nameCtr   map[string]int
	shapes    map[string][]Leaf
	ep0       *Epoch
	epochCtr  int
	heapSorts map[string]Sort
	st        *State
	obls      []*Obl
	prop      string
	fnName    string
	contract  *FuncContract
	approx    []string // constructs approximated by havoc
	assumed   []string
	trusted   map[string]bool
	funcsSeen map[string]bool
	discovery int
	writes    map[string]bool
	inputs    []ModelVar
	stopAfterCuts bool
	cutsLeft  int
	errVarsDone bool
	oblSeen   map[string]int
	ufDecl    map[string]bool
	specEval  int
	quantDepth int
	qCtr      int
	strs      map[string]string
	constGlobs []T
	inlineStack []*ssa.Function
	autoDepth int // number of automatically (best-effort) inlined callees on the stack
	privateCells []privateCell
	interiorStored map[string]bool // pointee types for which an interior pointer was stored as an opaque stand-in
	extCells  []T // references of locals/captured variables introduced lazily (pairwise distinct)
	writeRefs map[string]map[string]bool // during discovery: heap key -> object reference terms written
	discNames map[string]bool            // names introduced during the current discovery pass
	lastLoopRefs map[string][]string     // result of the last discovery: heap key -> loop-invariant written objects
	farrMemo     map[string]string       // (object ref, field) -> name of the derived row reference
	farrBase     map[string]string       // derived row reference name -> object reference term
	unrefWrites  map[string]bool         // during discovery: heap keys written without a recorded target object
	lastLoopInv  map[string][]string     // result of the last discovery: heap key -> the loop-invariant ones among the written objects
	lastLoopUnref map[string]bool        // result of the last discovery: heap keys with unrecorded write targets
	freshLoops   []*freshLoop
	curGuard     T
	topFn     *ssa.Function
	pkg       *ssa.Package
}

var debugTerms = os.Getenv("GOVC_DEBUG") != ""

type stopEncoding struct{}

// privateCell is a non-escaping address-taken local (its contents are invisible to callees).
type privateCell struct {
	ptr Val
	typ types.Type
}

func NewEnc(prog *Program, mode string) *Enc {
	if mode == "" {
		mode = "bv"
	}
	e := &Enc{prog: prog, mode: mode, nameCtr: map[string]int{}, shapes: map[string][]Leaf{},
		heapSorts: map[string]Sort{}, trusted: map[string]bool{}, funcsSeen: map[string]bool{},
		oblSeen: map[string]int{}, ufDecl: map[string]bool{}}
	e.ep0 = e.newEpoch()
	return e
}

func (e *Enc) fresh(hint string) string {
	hint = sanitize(hint)
	if hint == "" {
		hint = "v"
	}
	if len(hint) > 52 {
		hint = hint[:10] + ".." + hint[len(hint)-40:]
	}
	e.nameCtr[hint]++
	n := fmt.Sprintf("%s!%d", hint, e.nameCtr[hint])
	if e.discovery > 0 {
		if e.discNames == nil {
			e.discNames = map[string]bool{}
		}
		e.discNames[n] = true
	}
	return n
}

func (e *Enc) emit(s string) { e.out = append(e.out, s) }

func (e *Enc) declare(s Sort, hint string) T {
	if e.quantDepth > 0 {
		panic(unsupported("fresh constant needed under a quantifier (" + hint + ")"))
	}
	n := e.fresh(hint)
	e.emit(fmt.Sprintf("(declare-const %s %s)", n, s))
	return T{s, n}
}

func (e *Enc) define(t T, hint string) T {
	if !strings.ContainsAny(t.E, " (") || e.quantDepth > 0 {
		return t
	}
	if _, _, ok := splitPlusConst(t.E); ok && t.S.K == SInt {
		return t // keep `base + constant` offsets visible (see elemIndex)
	}
	n := e.fresh(hint)
	e.emit(fmt.Sprintf("(define-fun %s () %s %s)", n, t.S, t.E))
	return T{t.S, n}
}

func (e *Enc) assert(t T) {
	if t.E == "true" || e.quantDepth > 0 {
		return
	}
	e.emit("(assert " + t.E + ")")
}

func (e *Enc) oblige(kind, label string, guard, goal T, src string, pos token.Pos) *Obl {
	if e.discovery > 0 || e.specEval > 0 {
		return &Obl{}
	}
	name := fmt.Sprintf("%s/%s#%s", e.prop, e.fnName, kind)
	if label != "" {
		name += "[" + label + "]"
	}
	e.oblSeen[name]++
	if n := e.oblSeen[name]; n > 1 {
		name += fmt.Sprintf("~%d", n)
	}
	o := &Obl{Name: name, Kind: kind, Prefix: len(e.out), Guard: guard, Goal: goal, Expect: "unsat", Src: src, Fn: e.fnName, Enc: e}
	if pos.IsValid() {
		p := e.prog.fset.Position(pos)
		o.Pos = fmt.Sprintf("%s:%d", p.Filename, p.Line)
	}
	o.Inputs = e.inputs
	e.obls = append(e.obls, o)
	if debugTerms {
		g := goal.E
		if len(g) > 600 {
			g = g[:600] + "..."
		}
		fmt.Fprintf(os.Stderr, "DEBUG %s\n   guard=%s\n   goal=%s\n", name, guard.E, g)
	}
	return o
}

// obligeAssume records an obligation and then assumes it for the rest of the encoding.
func (e *Enc) obligeAssume(kind, label string, guard, goal T, src string, pos token.Pos) {
	if goal.E == "true" || guard.E == "false" || e.specEval > 0 {
		return
	}
	if (len(e.inlineStack) > 0 && (kind == "bounds" || kind == "div" || kind == "nil") || e.autoDepth > 0 && kind == "arith") && !(e.contract != nil && e.contract.NoPanic) {
		// run-time panics inside inlined callees are not this function's obligations: assumed absent
		// (they are obligations of the callee's own contract, or of a harness marked nopanic)
		e.assert(Implies(guard, goal))
		return
	}
	if kind == "arith" && e.contract != nil && e.contract.Opts["arith"] == "assume" {
		// opt arith=assume: counters of this (large) function do not overflow; assumed and reported
		e.assert(Implies(guard, goal))
		e.noteAssumed(e.fnName + ": integer arithmetic of this function does not overflow (opt arith=assume)")
		return
	}
	if kind == "bounds" && e.contract != nil && e.contract.Opts["bounds"] == "assume" {
		// opt bounds=assume: index/slice safety of this (large, I/O) function is not the claim; assumed and reported
		e.assert(Implies(guard, goal))
		e.noteAssumed(e.fnName + ": index and slice expressions are in range (opt bounds=assume)")
		return
	}
	e.oblige(kind, label, guard, goal, src, pos)
	e.assert(Implies(guard, goal))
}

func (e *Enc) noteAssumed(s string) {
	for _, a := range e.assumed {
		if a == s {
			return
		}
	}
	e.assumed = append(e.assumed, s)
}

// ---- frames ----

type Edge struct {
	guard T
	st    *State
}

type LoopInfo struct {
	header *ssa.BasicBlock
	blocks map[*ssa.BasicBlock]bool
	ord    int
	spec   *LoopSpec
}

type retInfo struct {
	guard T
	vals  []Val
	st    *State
	pos   token.Pos
	blk   *ssa.BasicBlock
}

type Frame struct {
	fn       *ssa.Function
	vals     map[ssa.Value]Val
	edges    map[[2]int]*Edge
	guards   map[int]T
	loops    map[*ssa.BasicBlock]*LoopInfo
	rets     []retInfo
	contract *FuncContract
	depth    int
	path     string
	bind     []Val // closure bindings (FreeVars)
	region   map[*ssa.BasicBlock]bool // non-nil: only these blocks are encoded; outside values are lazily havoc'd
	entrySt  *State
	params   []Val
	lazy     bool
	hdrPhis  map[*ssa.Phi]Val // header phi values (for old() in body contracts)
	curBlock *ssa.BasicBlock
	curIdx   int
	endStates map[int]*State
	lets     map[string]Val
	callOrd  map[string]int
	regionLoop *LoopInfo // body contracts: the loop whose (extended) region is being encoded
	unroll     *unrollCtx // non-nil while the iterations of an `unroll N` loop are being encoded
}

func (e *Enc) newFrame(fn *ssa.Function, depth int, path string) *Frame {
	fr := &Frame{fn: fn, vals: map[ssa.Value]Val{}, edges: map[[2]int]*Edge{}, guards: map[int]T{}, depth: depth, path: path,
		endStates: map[int]*State{}, lets: map[string]Val{}, callOrd: map[string]int{}}
	fr.loops = findLoops(fn)
	return fr
}

func findLoops(fn *ssa.Function) map[*ssa.BasicBlock]*LoopInfo {
	loops := map[*ssa.BasicBlock]*LoopInfo{}
	for _, b := range fn.Blocks {
		for _, s := range b.Succs {
			if s.Dominates(b) { // back edge b -> s
				li := loops[s]
				if li == nil {
					li = &LoopInfo{header: s, blocks: map[*ssa.BasicBlock]bool{s: true}}
					loops[s] = li
				}
				// natural loop: all blocks that reach b without passing s
				var stack []*ssa.BasicBlock
				if !li.blocks[b] {
					li.blocks[b] = true
					stack = append(stack, b)
				}
				for len(stack) > 0 {
					x := stack[len(stack)-1]
					stack = stack[:len(stack)-1]
					for _, p := range x.Preds {
						if !li.blocks[p] {
							li.blocks[p] = true
							stack = append(stack, p)
						}
					}
				}
			}
		}
	}
	var hs []*ssa.BasicBlock
	for h := range loops {
		hs = append(hs, h)
	}
	sort.Slice(hs, func(i, j int) bool { return hs[i].Index < hs[j].Index })
	for i, h := range hs {
		loops[h].ord = i + 1
	}
	return loops
}

// rpo returns blocks in reverse post-order ignoring back edges, restricted to region if non-nil.
func rpo(fn *ssa.Function, start *ssa.BasicBlock, region map[*ssa.BasicBlock]bool) []*ssa.BasicBlock {
	seen := map[*ssa.BasicBlock]bool{}
	var post []*ssa.BasicBlock
	var dfs func(b *ssa.BasicBlock)
	dfs = func(b *ssa.BasicBlock) {
		seen[b] = true
		for _, s := range b.Succs {
			if seen[s] || s.Dominates(b) {
				continue
			}
			if region != nil && !region[s] {
				continue
			}
			dfs(s)
		}
		post = append(post, b)
	}
	dfs(start)
	for i, j := 0, len(post)-1; i < j; i, j = i+1, j-1 {
		post[i], post[j] = post[j], post[i]
	}
	return post
}

func (e *Enc) get(fr *Frame, v ssa.Value) Val {
	if x, ok := fr.vals[v]; ok {
		return x
	}
	switch c := v.(type) {
	case *ssa.Const:
		return e.constVal(c)
	case *ssa.Global:
		return Val{Typ: c.Type(), L: []T{IntLit64(IntS, 1)}, P: &PtrInfo{Space: "G", Root: c.Type().(*types.Pointer).Elem(), Glob: c}}
	case *ssa.Function:
		return Val{Typ: c.Type(), L: []T{IntLit64(IntS, 1)}, Fn: c}
	case *ssa.Builtin:
		return Val{Typ: c.Type()}
	case *ssa.FreeVar:
		for i, fv := range fr.fn.FreeVars {
			if fv == c && i < len(fr.bind) {
				return fr.bind[i]
			}
		}
	}
	if fr.lazy {
		// a function literal created outside the encoded region: the same code, bound to the
		// (lazily introduced) cells it captures
		if mc, ok := v.(*ssa.MakeClosure); ok {
			if fn, isFn := mc.Fn.(*ssa.Function); isFn {
				var bind []Val
				for _, bv := range mc.Bindings {
					bind = append(bind, e.get(fr, bv))
				}
				// distinct captured cells are distinct objects
				for i := range bind {
					for j := i + 1; j < len(bind); j++ {
						if mc.Bindings[i] != mc.Bindings[j] && len(bind[i].L) > 0 && len(bind[j].L) > 0 && bind[i].P == nil && bind[j].P == nil {
							if _, ok1 := mc.Bindings[i].(*ssa.Alloc); ok1 {
								if _, ok2 := mc.Bindings[j].(*ssa.Alloc); ok2 && bind[i].L[0].S == bind[j].L[0].S {
									e.assert(Not(Eq(bind[i].L[0], bind[j].L[0])))
								}
							}
						}
					}
				}
				x := Val{Typ: mc.Type(), L: []T{IntLit64(IntS, 1)}, Fn: fn, Bind: bind}
				fr.vals[v] = x
				return x
			}
		}
		// value defined outside the encoded region: pure instructions are recomputed from their
		// (lazily introduced) operands so that e.g. `n := len(xs)` stays tied to xs
		pure := false
		switch x := v.(type) {
		case *ssa.BinOp, *ssa.Convert, *ssa.ChangeType, *ssa.Field:
			pure = true
		case *ssa.UnOp:
			pure = x.Op != token.MUL && x.Op != token.ARROW
		case *ssa.Call:
			if b, ok := x.Call.Value.(*ssa.Builtin); ok && (b.Name() == "len" || b.Name() == "cap") {
				if _, isSlice := x.Call.Args[0].Type().Underlying().(*types.Slice); isSlice {
					pure = true
				}
			}
		}
		if pure && e.st != nil {
			ins := v.(ssa.Instruction)
			e.specEval++
			func() {
				defer func() { e.specEval-- }()
				e.instr(fr, ins.Block(), ins, True, e.st)
			}()
			if x, ok := fr.vals[v]; ok {
				return x
			}
		}
		// otherwise: arbitrary value of its type
		qd := e.quantDepth
		e.quantDepth = 0
		defer func() { e.quantDepth = qd }()
		// a value defined outside the encoded region exists when the region is entered: references in
		// it lie below the allocation frontier of the region's entry state
		saveSt := e.st
		if fr.entrySt != nil {
			e.st = fr.entrySt
		}
		x := e.freshVal(v.Type(), "ext_"+v.Name())
		e.st = saveSt
		if e.discovery == 0 && x.Tup == nil {
			nm := v.Name()
			if p, ok := v.(*ssa.Parameter); ok {
				nm = p.Name()
			} else if ph, ok := v.(*ssa.Phi); ok && ph.Comment != "" {
				nm = ph.Comment
			} else if c, ok := v.(ssa.Instruction); ok {
				nm = e.srcLabel(c.Pos(), v.Name()) + " (" + v.Name() + ")"
			}
			sh := e.shape(v.Type())
			for i, l := range x.L {
				if i < len(sh) {
					e.inputs = append(e.inputs, ModelVar{Name: nm + sh[i].Path, Term: l, Typ: v.Type()})
				}
			}
		}
		if fv, isFV := v.(*ssa.FreeVar); isFV && e.discovery == 0 {
			// captured variable of the enclosing function: only this closure family can reach it
			if pt, ok := fv.Type().Underlying().(*types.Pointer); ok {
				e.assert(T{BoolS, app("<", "0", x.L[0].E)})
				e.privateCells = append(e.privateCells, privateCell{x, pt.Elem()})
				for _, o := range e.extCells {
					e.assert(Not(Eq(o, x.L[0])))
				}
				e.extCells = append(e.extCells, x.L[0])
			}
		}
		if al, isAlloc := v.(*ssa.Alloc); isAlloc {
			e.assert(T{BoolS, app("<", "0", x.L[0].E)})
			if fr.entrySt != nil {
				e.assert(T{BoolS, app("<", x.L[0].E, e.heapGet(fr.entrySt, "!top", IntS).E)})
			}
			if (!al.Heap || closureOnly(al)) && e.discovery == 0 {
				e.privateCells = append(e.privateCells, privateCell{x, al.Type().(*types.Pointer).Elem()})
			}
			if e.discovery == 0 {
				for _, o := range e.extCells {
					e.assert(Not(Eq(o, x.L[0])))
				}
				e.extCells = append(e.extCells, x.L[0])
			}
		}
		fr.vals[v] = x
		return x
	}
	panic(unsupported(fmt.Sprintf("value %s (%T) not defined in %s", v.Name(), v, fr.fn.Name())))
}

// ---- state merging ----

func (e *Enc) mergeStates(gs []T, sts []*State) *State {
	if len(sts) == 1 {
		return sts[0].clone()
	}
	res := &State{H: map[string]T{}}
	sameEp := true
	for _, s := range sts {
		if s.ep != sts[0].ep {
			sameEp = false
		}
	}
	if sameEp {
		res.ep = sts[0].ep
	} else {
		res.ep = e.newEpoch()
		res.ep.parts = nil
		for _, s := range sts {
			res.ep.parts = append(res.ep.parts, s.ep)
		}
		res.ep.gs = gs
	}
	keys := map[string]bool{}
	for _, s := range sts {
		for k := range s.H {
			keys[k] = true
		}
	}
	var ks []string
	for k := range keys {
		ks = append(ks, k)
	}
	sort.Strings(ks)
	for _, k := range ks {
		srt := e.heapSorts[k]
		cur := e.heapGet(sts[len(sts)-1], k, srt)
		same := true
		for i := len(sts) - 2; i >= 0; i-- {
			t := e.heapGet(sts[i], k, srt)
			if t.E != cur.E {
				same = false
			}
			cur = Ite(gs[i], t, cur)
		}
		if same {
			res.H[k] = e.heapGet(sts[0], k, srt)
		} else {
			res.H[k] = e.define(cur, "Hm")
		}
	}
	return res
}

// havocAll forgets everything about the heap except allocation monotonicity.
func (e *Enc) havocAll(st *State, why string) {
	if e.writes != nil {
		e.writes["*"] = true
	}
	oldTop := e.heapGet(st, "!top", IntS)
	// address-taken locals that do not escape (go/ssa: Alloc.Heap == false) are not reachable by
	// the callee: their contents survive the havoc
	type saved struct {
		c privateCell
		v Val
	}
	var savedCells []saved
	if e.quantDepth == 0 {
		for _, c := range e.privateCells {
			if c.ptr.P != nil && c.ptr.P.Space != "H" {
				continue
			}
			savedCells = append(savedCells, saved{c, e.nameVal(e.loadAt(st, c.ptr, c.typ), "keep")})
		}
	}
	defer func() {
		for _, s := range savedCells {
			e.storeAt(st, s.c.ptr, s.v)
		}
	}()
	keep := map[string]T{}
	for k, v := range st.H {
		if strings.HasPrefix(k, "!called|") || strings.HasPrefix(k, "!ncalls|") {
			keep[k] = v
		}
		delete(st.H, k)
	}
	st.ep = e.newEpoch()
	for k, v := range keep {
		st.H[k] = v
	}
	nt := e.heapGet(st, "!top", IntS)
	e.assert(T{BoolS, app("<=", oldTop.E, nt.E)})
}

// reachTypes computes the heap families an unknown callee can reach from values of the given
// types: pointed-to objects (H), slice/array backing stores (E) and maps (M), transitively
// through fields. all=true when an interface, function value, channel or unsafe pointer is
// reachable (then anything may be reached).
func (e *Enc) reachTypes(ts []types.Type) (reach map[string]bool, all bool) {
	reach = map[string]bool{}
	seen := map[string]bool{}
	var walk func(t types.Type, depth int)
	walk = func(t types.Type, depth int) {
		if all || depth > 40 {
			if depth > 40 {
				all = true
			}
			return
		}
		k := typeKey(t)
		if seen[k] {
			return
		}
		seen[k] = true
		if opaqueTypes[k] {
			return
		}
		switch u := t.Underlying().(type) {
		case *types.Basic:
			if u.Kind() == types.UnsafePointer {
				all = true
			}
		case *types.Pointer:
			reach["H|"+typeKey(u.Elem())] = true
			if at, ok := u.Elem().Underlying().(*types.Array); ok {
				reach["E|"+typeKey(at.Elem())] = true
			}
			walk(u.Elem(), depth+1)
		case *types.Slice:
			reach["E|"+typeKey(u.Elem())] = true
			walk(u.Elem(), depth+1)
		case *types.Array:
			reach["E|"+typeKey(u.Elem())] = true
			walk(u.Elem(), depth+1)
		case *types.Map:
			reach["M|"+typeKey(t)] = true
			reach["M|"+typeKey(u)] = true
			walk(u.Key(), depth+1)
			walk(u.Elem(), depth+1)
		case *types.Struct:
			for i := 0; i < u.NumFields(); i++ {
				walk(u.Field(i).Type(), depth+1)
			}
		case *types.Tuple:
			for i := 0; i < u.Len(); i++ {
				walk(u.At(i).Type(), depth+1)
			}
		default: // interfaces, functions, channels, type parameters
			all = true
		}
	}
	for _, t := range ts {
		walk(t, 0)
	}
	return reach, all
}

// havocReach forgets what an unknown callee with arguments of the given types may have changed:
// only heap families reachable from those types (and package-level variables).
func (e *Enc) havocReach(st *State, argTypes []types.Type, why string) {
	reach, all := e.reachTypes(argTypes)
	if all {
		e.havocAll(st, why)
		return
	}
	oldTop := e.heapGet(st, "!top", IntS)
	// non-escaping locals keep their contents (see havocAll)
	type saved struct {
		c privateCell
		v Val
	}
	var savedCells []saved
	if e.quantDepth == 0 {
		for _, c := range e.privateCells {
			if c.ptr.P != nil && c.ptr.P.Space != "H" {
				continue
			}
			if pt, ok := c.ptr.Typ.Underlying().(*types.Pointer); ok && reach["H|"+typeKey(pt.Elem())] {
				savedCells = append(savedCells, saved{c, e.nameVal(e.loadAt(st, c.ptr, c.typ), "keep")})
			}
		}
	}
	e.partialHavoc(st, reach)
	for _, s := range savedCells {
		e.storeAt(st, s.c.ptr, s.v)
	}
	if e.writes != nil {
		for k := range reach {
			e.writes["~"+k] = true // family-level write mark (used by loop havoc)
		}
	}
	nt := e.declare(IntS, "top_c")
	e.assert(T{BoolS, app("<=", oldTop.E, nt.E)})
	st.H["!top"] = nt
}

// partialHavoc starts a new epoch in which the given heap families (and package-level
// variables) are fresh and everything else is inherited.
func (e *Enc) partialHavoc(st *State, reach map[string]bool) {
	ne := e.newEpoch()
	ne.parent = st.ep
	ne.reach = reach
	for k := range st.H {
		if strings.HasPrefix(k, "!") {
			continue
		}
		sp, ty := heapKeyType(k)
		if sp == "G" && !e.isConstGlobal(k) || reach[sp+"|"+ty] {
			if e.writes != nil {
				e.writes[k] = true
			}
			delete(st.H, k) // re-read from the new epoch on next touch
		}
	}
	st.ep = ne
}

func (e *Enc) isConstGlobal(key string) bool {
	// package-level error variables are treated as constants
	return e.prog.constGlobals[key]
}

// ---- function encoding ----

func (e *Enc) run(fr *Frame, start *ssa.BasicBlock, g0 T, st0 *State) {
	order := rpo(fr.fn, start, fr.region)
	fr.guards[start.Index] = g0
	startState := st0
	skip := map[*ssa.BasicBlock]bool{}
	for _, b := range order {
		if skip[b] {
			continue
		}
		var guard T
		var st *State
		if b == start {
			guard, st = g0, startState.clone()
			if li := fr.loops[b]; li != nil && fr.region == nil {
				// function entry block is a loop header: treat entry as an edge
				panic(unsupported("entry block is a loop header"))
			}
		} else {
			var gs []T
			var sts []*State
			var preds []*ssa.BasicBlock
			for _, p := range b.Preds {
				if ed, ok := fr.edges[[2]int{p.Index, b.Index}]; ok {
					gs = append(gs, ed.guard)
					sts = append(sts, ed.st)
					preds = append(preds, p)
				}
			}
			if len(gs) == 0 {
				continue // unreachable in this encoding
			}
			guard = e.define(Or(gs...), fmt.Sprintf("g_b%d", b.Index))
			st = e.mergeStates(gs, sts)
			// phis
			for _, ins := range b.Instrs {
				phi, ok := ins.(*ssa.Phi)
				if !ok {
					break
				}
				var val Val
				first := true
				for i := len(b.Preds) - 1; i >= 0; i-- {
					ed, ok := fr.edges[[2]int{b.Preds[i].Index, b.Index}]
					if !ok {
						continue
					}
					e.st = ed.st
					v := e.get(fr, phi.Edges[i])
					v.Typ = phi.Type()
					if first {
						val, first = v, false
					} else {
						val = e.iteVal(ed.guard, v, val)
					}
				}
				fr.vals[phi] = e.nameVal(val, phi.Comment)
			}
			if li := fr.loops[b]; li != nil {
				if spec := e.loopSpec(fr, li); spec != nil && spec.Unroll > 0 {
					e.unrollLoop(fr, li, spec.Unroll, guard, st)
					for blk := range li.blocks {
						skip[blk] = true
					}
					continue
				}
				guard, st = e.loopHeader(fr, li, guard, st)
			}
		}
		fr.guards[b.Index] = guard
		e.block(fr, b, guard, st)
	}
}

func (e *Enc) nameVal(v Val, hint string) Val {
	if v.Tup != nil {
		return v
	}
	r := v
	r.L = make([]T, len(v.L))
	for i, t := range v.L {
		r.L[i] = e.define(t, hint)
	}
	if v.P != nil {
		p := *v.P
		p.Idxs = nil
		for _, ix := range v.P.Idxs {
			p.Idxs = append(p.Idxs, e.define(ix, hint+"_ix"))
		}
		r.P = &p
	}
	return r
}

func (e *Enc) loopSpec(fr *Frame, li *LoopInfo) *LoopSpec {
	if fr.contract != nil && fr.depth == 0 {
		if ls := fr.contract.Loops[li.ord]; ls != nil {
			return ls
		}
	}
	if c := e.prog.contractFor(fr.fn); c != nil {
		if ls := c.Loops[li.ord]; ls != nil {
			return ls
		}
	}
	return nil
}

// loopHeader handles the cut at a loop header reached through forward (entry) edges.
func (e *Enc) loopHeader(fr *Frame, li *LoopInfo, guard T, st *State) (T, *State) {
	spec := e.loopSpec(fr, li)
	if spec == nil || (len(spec.Invariants) == 0 && !spec.Body) {
		// no invariant given: the loop is abstracted by `true` (everything it writes is havoc'd)
		e.approximate(fmt.Sprintf("loop %d of %s has no invariant: abstracted by havoc of what it writes", li.ord, fr.fn.Name()))
		spec = &LoopSpec{Ord: li.ord, FrameFresh: spec != nil && spec.FrameFresh}
	}
	hdr := li.header
	// 1. invariant holds on entry
	sc := e.scopeAt(fr, hdr, lastPhiIdx(hdr), st)
	sc.old = fr.entrySt
	if fr.regionLoop != nil && fr.regionLoop != li {
		sc.oldHdr = fr.regionLoop.header // inside a loop-body contract old() is the state at that loop's head
	}
	for _, c := range spec.Invariants {
		t := e.evalBool(sc, c.E)
		e.oblige("inv-init", fmt.Sprintf("loop%d:%s", li.ord, clabel(c)), guard, t, c.Src, hdr.Instrs[0].Pos())
	}
	// 2. discover what the loop writes, then havoc it
	w := e.discoverWrites(fr, li, guard, st)
	st = st.clone()
	if w["*"] {
		e.havocAll(st, "loop")
	} else {
		var ks []string
		for k := range w {
			ks = append(ks, k)
		}
		sort.Strings(ks)
		var freshReg *freshLoop
		// heap families touched by unknown callees inside the loop (partial havocs)
		fams := map[string]bool{}
		for _, k := range ks {
			if strings.HasPrefix(k, "~") {
				fams[k[1:]] = true
			}
		}
		if len(fams) > 0 {
			e.partialHavoc(st, fams)
		}
		for _, k := range ks {
			if strings.HasPrefix(k, "~") {
				continue
			}
			if k == "!top" {
				old := e.heapGet(st, k, IntS)
				st.H[k] = e.declare(IntS, "top_l")
				e.assert(T{BoolS, app("<=", old.E, st.H[k].E)})
				continue
			}
			srt, ok := e.heapSorts[k]
			if !ok {
				continue
			}
			oldH := e.heapGet(st, k, srt)
			st.H[k] = e.declare(srt, "Hl_"+sanitize(k))
			// frame: the loop writes this component only at objects known before the loop, so every
			// other object's entry is untouched
			ksp, kty := heapKeyType(k)
			if os.Getenv("GOVC_APPROX") != "" && spec.FrameFresh && e.discovery == 0 {
				_, has := e.lastLoopInv[k]
				fmt.Fprintf(os.Stderr, "frame fresh loop %d of %s key %s: hasRefs=%v unref=%v fam=%v sort=%v\n", li.ord, e.fnName, k, has, e.lastLoopUnref[k], fams[ksp+"|"+kty], srt)
			}
			if inv, has := e.lastLoopInv[k]; has && spec.FrameFresh && srt.K == SArray && srt.Idx.K == SInt && !strings.HasPrefix(k, "G|") && !fams[ksp+"|"+kty] && !e.lastLoopUnref[k] {
				if _, allKnown := e.lastLoopRefs[k]; !allKnown {
					// `frame fresh`: objects that existed when the region was entered and are not written
					// from the start keep their entry (every write in the loop is checked, see checkFreshWrite)
					e.qCtr++
					r := fmt.Sprintf("lf!%d", e.qCtr)
					top0 := e.epochGet(e.ep0, "!top", IntS)
					// (negative references are rows of array-typed fields of pre-existing objects: a checked write is never negative unless known)
					conds := []string{"(or (< " + r + " 0) (and (< 0 " + r + ") (< " + r + " " + top0.E + ")))"}
					for _, x := range inv {
						conds = append(conds, "(not (= "+r+" "+x+"))")
					}
					e.emit(fmt.Sprintf("(assert (forall ((%s Int)) (=> (and %s) (= (select %s %s) (select %s %s)))))", r, strings.Join(conds, " "), st.H[k].E, r, oldH.E, r))
					if e.discovery == 0 {
						if freshReg == nil {
							freshReg = &freshLoop{li: li, fr: fr, known: map[string][]string{}}
							e.freshLoops = append(e.freshLoops, freshReg)
						}
						freshReg.known[k] = inv
					}
				}
			}
			if rs, ok := e.lastLoopRefs[k]; ok && srt.K == SArray && srt.Idx.K == SInt && !strings.HasPrefix(k, "G|") && !fams[ksp+"|"+kty] {
				e.qCtr++
				r := fmt.Sprintf("lf!%d", e.qCtr)
				var ne []string
				for _, x := range rs {
					ne = append(ne, "(not (= "+r+" "+x+"))")
				}
				cond := "true"
				if len(ne) == 1 {
					cond = ne[0]
				} else if len(ne) > 1 {
					cond = "(and " + strings.Join(ne, " ") + ")"
				}
				e.emit(fmt.Sprintf("(assert (forall ((%s Int)) (=> %s (= (select %s %s) (select %s %s)))))", r, cond, st.H[k].E, r, oldH.E, r))
			}
		}
	}
	for _, ins := range hdr.Instrs {
		phi, ok := ins.(*ssa.Phi)
		if !ok {
			break
		}
		e.st = st
		nv := e.freshVal(phi.Type(), "l"+fmt.Sprint(li.ord)+"_"+phi.Comment)
		if old, ok := fr.vals[phi]; ok && old.P != nil {
			p := *old.P
			p.Idxs = nil
			for range old.P.Idxs {
				p.Idxs = append(p.Idxs, e.declare(e.idxSort(), "lix"))
			}
			nv.P = &p
		}
		fr.vals[phi] = nv
	}
	// 3. assume the invariant for an arbitrary iteration
	sc = e.scopeAt(fr, hdr, lastPhiIdx(hdr), st)
	sc.old = fr.entrySt
	if fr.regionLoop != nil && fr.regionLoop != li {
		sc.oldHdr = fr.regionLoop.header
	}
	for _, c := range spec.Invariants {
		t := e.evalBool(sc, c.E)
		e.assert(Implies(guard, t))
	}
	if fr.hdrPhis == nil {
		fr.hdrPhis = map[*ssa.Phi]Val{}
	}
	e.assumeRangeIndex(fr, hdr, guard)
	return guard, st
}

// assumeRangeIndex: go/ssa lowers `for i := range slice` to a hidden index phi ("rangeindex")
// running from -1; at the loop head -1 <= index < len holds by construction of the lowering.
func (e *Enc) assumeRangeIndex(fr *Frame, hdr *ssa.BasicBlock, guard T) {
	for _, ins := range hdr.Instrs {
		phi, ok := ins.(*ssa.Phi)
		if !ok {
			break
		}
		if phi.Comment != "rangeindex" {
			continue
		}
		pv, ok := fr.vals[phi]
		if !ok || len(pv.L) != 1 {
			continue
		}
		idx := pv.L[0]
		e.assert(Implies(guard, e.sle(IntLit64(idx.S, -1), idx)))
		// find `inc < len` in the header
		for _, in2 := range hdr.Instrs {
			b, ok := in2.(*ssa.BinOp)
			if !ok || b.Op != token.LSS {
				continue
			}
			inc, ok := b.X.(*ssa.BinOp)
			if !ok || inc.X != phi {
				continue
			}
			lv := e.get(fr, b.Y)
			if len(lv.L) == 1 && lv.L[0].S.Eq(idx.S) {
				e.assert(Implies(guard, And(e.slt(idx, lv.L[0]), e.sle(lv.L[0], e.maxLen()))))
			}
		}
	}
}

func clabel(c *Clause) string {
	if c.Label != "" {
		return c.Label
	}
	s := c.Src
	if len(s) > 40 {
		s = s[:40]
	}
	return s
}

// discoverWrites encodes the loop body once into a scratch buffer to learn which heap
// components it writes.
func (e *Enc) discoverWrites(fr *Frame, li *LoopInfo, guard T, st *State) map[string]bool {
	saveOut, saveObls, saveWrites := len(e.out), len(e.obls), e.writes
	saveApprox := len(e.approx)
	saveCells := len(e.privateCells)
	e.discovery++
	e.writes = map[string]bool{}
	saveRefs, saveNames := e.writeRefs, e.discNames
	e.writeRefs, e.discNames = map[string]map[string]bool{}, map[string]bool{}
	saveUnref := e.unrefWrites
	e.unrefWrites = map[string]bool{}
	sub := &Frame{fn: fr.fn, vals: map[ssa.Value]Val{}, edges: map[[2]int]*Edge{}, guards: map[int]T{}, loops: fr.loops,
		contract: fr.contract, depth: fr.depth, path: fr.path, bind: fr.bind, region: li.blocks, lazy: true, entrySt: fr.entrySt,
		endStates: map[int]*State{}, lets: map[string]Val{}, callOrd: map[string]int{}}
	for k, v := range fr.vals {
		sub.vals[k] = v
	}
	for k, v := range fr.lets {
		sub.lets[k] = v
	}
	func() {
		defer func() {
			if r := recover(); r != nil {
				if _, ok := r.(stopEncoding); ok {
					return
				}
				if u, ok := r.(unsupported); ok {
					if os.Getenv("GOVC_APPROX") != "" {
						fmt.Fprintf(os.Stderr, "discovery of loop %d in %s: %v\n", li.ord, e.fnName, u)
					}
					e.writes["*"] = true
					return
				}
				panic(r)
			}
		}()
		st2 := st.clone()
		// the allocation frontier of an arbitrary iteration is not the one before the loop: objects
		// allocated in the body are not loop-invariant references
		if oldTop := e.heapGet(st2, "!top", IntS); true {
			nt := e.declare(IntS, "d_top")
			e.assert(T{BoolS, app("<=", oldTop.E, nt.E)})
			st2.H["!top"] = nt
		}
		// phis get arbitrary values
		for _, ins := range li.header.Instrs {
			phi, ok := ins.(*ssa.Phi)
			if !ok {
				break
			}
			e.st = st2
			nv := e.freshVal(phi.Type(), "d_"+phi.Comment)
			if old, ok := fr.vals[phi]; ok && old.P != nil {
				nv.P = old.P
			}
			sub.vals[phi] = nv
		}
		e.runRegion(sub, li, guard, st2)
	}()
	w := e.writes
	// which objects were written, if they are all known before the loop (loop-invariant references)
	e.lastLoopRefs = map[string][]string{}
	e.lastLoopInv = map[string][]string{}
	e.lastLoopUnref = e.unrefWrites
	for k, refs := range e.writeRefs {
		ok := true
		var rs []string
		for r := range refs {
			base := r
			if b, isRow := e.farrBase[r]; isRow {
				base = b // a row derived from an object known before the loop is itself known before the loop
			}
			if strings.ContainsAny(base, " (") || e.discNames[base] {
				ok = false
				continue
			}
			rs = append(rs, r)
		}
		sort.Strings(rs)
		e.lastLoopInv[k] = rs
		if ok {
			e.lastLoopRefs[k] = rs
		}
	}
	if saveUnref != nil {
		for k := range e.unrefWrites {
			saveUnref[k] = true
		}
	}
	e.unrefWrites = saveUnref
	for k, refs := range e.writeRefs { // propagate to an enclosing discovery
		if saveRefs != nil {
			if saveRefs[k] == nil {
				saveRefs[k] = map[string]bool{}
			}
			for r := range refs {
				saveRefs[k][r] = true
			}
		}
	}
	for n := range e.discNames {
		if saveNames != nil {
			saveNames[n] = true
		}
	}
	e.writeRefs, e.discNames = saveRefs, saveNames
	e.discovery--
	e.writes = saveWrites
	if saveWrites != nil {
		for k := range w {
			saveWrites[k] = true
		}
	}
	// keep declarations/definitions made during discovery (caches may refer to them), drop assertions
	kept := e.out[:saveOut]
	for _, l := range e.out[saveOut:] {
		if !strings.HasPrefix(l, "(assert ") { // "(assert\t..." lines are definitional axioms and are kept
			kept = append(kept, l)
		}
	}
	e.out = kept
	e.obls = e.obls[:saveObls]
	e.approx = e.approx[:saveApprox]
	e.privateCells = e.privateCells[:saveCells]
	return w
}

type unrollEdge struct {
	from, to *ssa.BasicBlock
	guard    T
	st       *State
}

type unrollCtx struct {
	li    *LoopInfo
	back  []unrollEdge
	exits []unrollEdge
}

// unrollLoop encodes an `unroll N` loop exactly: N copies of the body, an obligation that no
// N+1st iteration is possible (unwinding assertion), exits of all iterations merged. Values
// defined in the loop and used after it are the ones of the iteration in which the loop was left.
func (e *Enc) unrollLoop(fr *Frame, li *LoopInfo, n int, guard T, st *State) {
	hdr := li.header
	outer := fr.unroll
	defer func() { fr.unroll = outer }()
	type exitRec struct {
		ed   unrollEdge
		iter int
	}
	var exits []exitRec
	var iterVals []map[ssa.Value]Val
	var iterExit []T
	g, s := guard, st
	for k := 0; k <= n; k++ {
		if k == n {
			// unwinding assertion: the loop cannot start another iteration
			e.oblige("unwind", fmt.Sprintf("loop%d:at most %d iterations", li.ord, n), True, Not(g), "loop unrolled exactly", hdr.Instrs[0].Pos())
			break
		}
		u := &unrollCtx{li: li}
		fr.unroll = u
		for key := range fr.edges {
			if blk := fr.fn.Blocks[key[0]]; li.blocks[blk] {
				delete(fr.edges, key)
			}
		}
		e.runRegion(fr, li, g, s)
		fr.unroll = outer
		vals := map[ssa.Value]Val{}
		for b := range li.blocks {
			for _, ins := range b.Instrs {
				if v, ok := ins.(ssa.Value); ok {
					if x, has := fr.vals[v]; has {
						vals[v] = x
					}
				}
			}
		}
		iterVals = append(iterVals, vals)
		var eg []T
		for _, x := range u.exits {
			exits = append(exits, exitRec{x, k})
			eg = append(eg, x.guard)
		}
		iterExit = append(iterExit, e.define(Or(eg...), fmt.Sprintf("unroll_exit%d", k)))
		if len(u.back) == 0 {
			break
		}
		// next iteration: header phis take the values flowing along the back edges
		var gs []T
		var sts []*State
		for _, be := range u.back {
			gs = append(gs, be.guard)
			sts = append(sts, be.st)
		}
		newPhis := map[*ssa.Phi]Val{}
		for _, ins := range hdr.Instrs {
			phi, ok := ins.(*ssa.Phi)
			if !ok {
				break
			}
			var val Val
			first := true
			for j := len(u.back) - 1; j >= 0; j-- {
				be := u.back[j]
				idx := -1
				for i, p := range hdr.Preds {
					if p == be.from {
						idx = i
					}
				}
				e.st = be.st
				v := e.get(fr, phi.Edges[idx])
				v.Typ = phi.Type()
				if first {
					val, first = v, false
				} else {
					val = e.iteVal(be.guard, v, val)
				}
			}
			newPhis[phi] = e.nameVal(val, phi.Comment)
		}
		for phi, v := range newPhis {
			fr.vals[phi] = v
		}
		g = e.define(Or(gs...), fmt.Sprintf("g_unroll%d", k+1))
		s = e.mergeStates(gs, sts)
	}
	// values visible after the loop: those of the iteration in which the loop was left
	seen := map[ssa.Value]bool{}
	for k := len(iterVals) - 1; k >= 0; k-- {
		for v, x := range iterVals[k] {
			if !seen[v] {
				seen[v] = true
				fr.vals[v] = x // last iteration that defined it: default
			}
		}
	}
	for v := range seen {
		var cur Val
		first := true
		for k := len(iterVals) - 1; k >= 0; k-- {
			x, ok := iterVals[k][v]
			if !ok || x.Tup != nil || x.Fn != nil {
				continue
			}
			if first {
				cur, first = x, false
				continue
			}
			if len(x.L) != len(cur.L) {
				continue
			}
			cur = e.iteVal(iterExit[k], x, cur)
		}
		if !first {
			fr.vals[v] = cur
		}
	}
	// exit edges, merged per (from, to)
	type key [2]int
	groups := map[key][]exitRec{}
	var order []key
	for _, x := range exits {
		kk := key{x.ed.from.Index, x.ed.to.Index}
		if _, ok := groups[kk]; !ok {
			order = append(order, kk)
		}
		groups[kk] = append(groups[kk], x)
	}
	for _, kk := range order {
		var gs []T
		var sts []*State
		for _, x := range groups[kk] {
			gs = append(gs, x.ed.guard)
			sts = append(sts, x.ed.st)
		}
		fr.edges[[2]int{kk[0], kk[1]}] = &Edge{guard: e.define(Or(gs...), "g_unroll_exit"), st: e.mergeStates(gs, sts)}
	}
}

// runRegion encodes the blocks of a loop starting at its header (header phis must be set).
func (e *Enc) runRegion(fr *Frame, li *LoopInfo, guard T, st *State) {
	blocks := li.blocks
	if fr.regionLoop == li && fr.region != nil {
		blocks = fr.region // body contract: the loop plus its break/return tails
	}
	order := rpo(fr.fn, li.header, blocks)
	skipR := map[*ssa.BasicBlock]bool{}
	for _, b := range order {
		if skipR[b] {
			continue
		}
		var g T
		var s *State
		if b == li.header {
			g, s = guard, st.clone()
		} else {
			var gs []T
			var sts []*State
			for _, p := range b.Preds {
				if ed, ok := fr.edges[[2]int{p.Index, b.Index}]; ok {
					gs = append(gs, ed.guard)
					sts = append(sts, ed.st)
				}
			}
			if len(gs) == 0 {
				continue
			}
			g = e.define(Or(gs...), fmt.Sprintf("g_b%d", b.Index))
			s = e.mergeStates(gs, sts)
			for _, ins := range b.Instrs {
				phi, ok := ins.(*ssa.Phi)
				if !ok {
					break
				}
				var val Val
				first := true
				for i := len(b.Preds) - 1; i >= 0; i-- {
					ed, ok := fr.edges[[2]int{b.Preds[i].Index, b.Index}]
					if !ok {
						continue
					}
					e.st = ed.st
					v := e.get(fr, phi.Edges[i])
					v.Typ = phi.Type()
					if first {
						val, first = v, false
					} else {
						val = e.iteVal(ed.guard, v, val)
					}
				}
				fr.vals[phi] = e.nameVal(val, phi.Comment)
			}
			if inner := fr.loops[b]; inner != nil && inner != li {
				if spec := e.loopSpec(fr, inner); spec != nil && spec.Unroll > 0 {
					e.unrollLoop(fr, inner, spec.Unroll, g, s)
					for blk := range inner.blocks {
						skipR[blk] = true
					}
					continue
				}
				g, s = e.loopHeader(fr, inner, g, s)
			}
		}
		fr.guards[b.Index] = g
		e.block(fr, b, g, s)
	}
}

// block encodes the instructions of b.
func (e *Enc) block(fr *Frame, b *ssa.BasicBlock, guard T, st *State) {
	fr.curBlock = b
	for i, ins := range b.Instrs {
		fr.curIdx = i
		e.st = st
		e.curGuard = guard
		if _, ok := ins.(*ssa.Phi); ok {
			continue
		}
		e.cutsBefore(fr, b, i, ins, guard, st)
		e.instr(fr, b, ins, guard, st)
	}
	fr.endStates[b.Index] = st
}

func (e *Enc) edge(fr *Frame, from, to *ssa.BasicBlock, guard T, st *State) {
	if guard.E == "false" {
		return
	}
	if u := fr.unroll; u != nil && u.li.blocks[from] {
		if to == u.li.header {
			u.back = append(u.back, unrollEdge{from, to, guard, st})
			return
		}
		if !u.li.blocks[to] {
			u.exits = append(u.exits, unrollEdge{from, to, guard, st})
			return
		}
	}
	if to.Dominates(from) {
		// back edge
		if fr.region != nil && !fr.region[to] {
			// back edge of an enclosing loop taken from a tail of the encoded region: leaves the region
			// (the region loop's own condition exit is not a break: no `body exit` clause applies there)
			if fr.regionLoop == nil || from != fr.regionLoop.header {
				e.exitEdge(fr, from, to, guard, st)
			} else if spec := e.loopSpec(fr, fr.regionLoop); spec != nil && len(spec.DoneEns) > 0 {
				e.exitEdge(fr, from, to, guard, st)
			}
			return
		}
		e.backEdge(fr, from, to, guard, st)
		return
	}
	if fr.region != nil && !fr.region[to] {
		e.exitEdge(fr, from, to, guard, st)
		return
	}
	fr.edges[[2]int{from.Index, to.Index}] = &Edge{guard: guard, st: st}
}

func (e *Enc) backEdge(fr *Frame, from, hdr *ssa.BasicBlock, guard T, st *State) {
	li := fr.loops[hdr]
	if li == nil || e.discovery > 0 {
		return
	}
	spec := e.loopSpec(fr, li)
	if spec == nil {
		return
	}
	// evaluate with header phis replaced by the values flowing along this edge
	over := map[ssa.Value]Val{}
	idx := -1
	for i, p := range hdr.Preds {
		if p == from {
			idx = i
		}
	}
	for _, ins := range hdr.Instrs {
		phi, ok := ins.(*ssa.Phi)
		if !ok {
			break
		}
		e.st = st
		v := e.get(fr, phi.Edges[idx])
		v.Typ = phi.Type()
		over[phi] = v
	}
	sc := e.scopeAt(fr, from, len(from.Instrs)-1, st)
	sc.over = over
	sc.old = fr.entrySt
	if fr.regionLoop != nil && fr.regionLoop != li {
		sc.oldHdr = fr.regionLoop.header
	}
	pos := from.Instrs[len(from.Instrs)-1].Pos()
	if !pos.IsValid() {
		pos = hdr.Instrs[0].Pos()
	}
	for _, c := range spec.Invariants {
		t := e.evalBool(sc, c.E)
		e.oblige("inv-step", fmt.Sprintf("loop%d:%s", li.ord, clabel(c)), guard, t, c.Src, pos)
	}
	if spec.Body && fr.region != nil {
		// loop-body contract: old() refers to the header state
		sc.old = fr.entrySt
		sc.oldOver = nil
		sc.oldHdr = hdr
		for _, c := range spec.BodyEns {
			t, ok := e.evalClauseOpt(fr, sc, c)
			if !ok {
				continue
			}
			e.oblige("body-post", fmt.Sprintf("loop%d:%s", li.ord, clabel(c)), guard, t, c.Src, pos)
		}
	}
}

func (e *Enc) exitEdge(fr *Frame, from, to *ssa.BasicBlock, guard T, st *State) {
	if e.discovery > 0 || fr.contract == nil {
		return
	}
	li := fr.regionLoop
	if li == nil {
		return
	}
	spec := e.loopSpec(fr, li)
	if spec == nil || !spec.Body {
		return
	}
	if from == li.header {
		// the loop's own condition ends the loop: `body done` clauses, evaluated in the loop-head state
		if len(spec.DoneEns) > 0 {
			sc := e.scopeAt(fr, from, len(from.Instrs)-1, st)
			sc.old = fr.entrySt
			sc.oldHdr = li.header
			for _, c := range spec.DoneEns {
				t, ok := e.evalClauseOpt(fr, sc, c)
				if !ok {
					continue
				}
				e.oblige("body-done", fmt.Sprintf("loop%d:%s", li.ord, clabel(c)), guard, t, c.Src, from.Instrs[len(from.Instrs)-1].Pos())
			}
			return
		}
	}
	// `body exit` clauses are about leaving the loop by break or by its condition; an edge to a
	// block that only returns (or panics) is the function returning from inside the loop
	// when the loop head has its own exit (a loop condition), break statements target that same
	// block: any other exit target is a return/goto path
	if natural := naturalExit(li); natural != nil && to != natural {
		return
	}
	tb := to
	for k := 0; k < 4; k++ {
		last := tb.Instrs[len(tb.Instrs)-1]
		switch last.(type) {
		case *ssa.Return, *ssa.Panic:
			return
		}
		if j, ok := last.(*ssa.Jump); ok && len(tb.Succs) == 1 {
			_ = j
			tb = tb.Succs[0]
			continue
		}
		break
	}
	sc := e.scopeAt(fr, from, len(from.Instrs)-1, st)
	sc.old = fr.entrySt
	sc.oldHdr = li.header
	for _, c := range spec.ExitEns {
		t, ok := e.evalClauseOpt(fr, sc, c)
		if !ok {
			continue
		}
		e.oblige("body-exit", fmt.Sprintf("loop%d:%s", li.ord, clabel(c)), guard, t, c.Src, from.Instrs[len(from.Instrs)-1].Pos())
	}
	if from != li.header {
		for _, c := range spec.BreakEns {
			t, ok := e.evalClauseOpt(fr, sc, c)
			if !ok {
				continue
			}
			e.oblige("body-break", fmt.Sprintf("loop%d:%s", li.ord, clabel(c)), guard, t, c.Src, from.Instrs[len(from.Instrs)-1].Pos())
		}
	}
}

func (e *Enc) markWrite(key string) {
	if e.writes != nil {
		e.writes[key] = true
		// a write whose target object is not recorded in writeRefs: the component cannot be framed per object
		if e.unrefWrites == nil {
			e.unrefWrites = map[string]bool{}
		}
		e.unrefWrites[key] = true
	}
}

// markWriteRef marks a write whose target object is recorded in writeRefs (see storeAt).
func (e *Enc) markWriteRef(key string) {
	if e.writes != nil {
		e.writes[key] = true
	}
}

// freshLoop is a loop annotated `frame fresh`: inside it, every write to a framed heap component
// goes to an object known before the loop (known) or to an object allocated since the region
// (function / loop iteration under contract) was entered. Each write is an obligation; in return
// the havoc at the loop head keeps every other pre-existing object's entry.
type freshLoop struct {
	li    *LoopInfo
	fr    *Frame
	known map[string][]string // heap key -> loop-invariant references written
}

func (e *Enc) checkFreshWrite(key string, ref T) {
	if e.discovery > 0 || e.specEval > 0 || len(e.freshLoops) == 0 {
		return
	}
	for _, fl := range e.freshLoops {
		if fl.fr.curBlock == nil || !fl.li.blocks[fl.fr.curBlock] {
			continue
		}
		known, framed := fl.known[key]
		if !framed {
			continue
		}
		top0 := e.epochGet(e.ep0, "!top", IntS)
		alts := []T{{BoolS, app("<=", top0.E, ref.E)}}
		isKnown := false
		for _, k := range known {
			if k == ref.E {
				isKnown = true
			}
			alts = append(alts, Eq(ref, T{IntS, k}))
		}
		if isKnown {
			continue
		}
		pos := token.NoPos
		if fl.fr.curBlock != nil && fl.fr.curIdx < len(fl.fr.curBlock.Instrs) {
			pos = fl.fr.curBlock.Instrs[fl.fr.curIdx].Pos()
		}
		e.oblige("loop-frame", fmt.Sprintf("loop%d:%s@%s", fl.li.ord, key, e.srcLabel(pos, "")), e.curGuard, Or(alts...),
			"write inside a `frame fresh` loop goes to an object allocated by the code under contract or to one written by the loop from the start", pos)
	}
}

// evalClauseOpt evaluates a clause; a clause that mentions a ghost snapshot (`at stmt ... let`)
// whose cut has not been passed on the way to this edge does not apply there and is skipped.
func (e *Enc) evalClauseOpt(fr *Frame, sc *Scope, c *Clause) (t T, ok bool) {
	defer func() {
		if r := recover(); r != nil {
			if u, isU := r.(unsupported); isU && fr.contract != nil {
				// a local variable of the function that has no definition reaching this edge: the
				// clause talks about a path that was not taken, it does not apply here
				const pre = "unknown identifier in contract: "
				if strings.HasPrefix(string(u), pre) && isLocalName(fr.fn, string(u)[len(pre):]) {
					t, ok = True, false
					return
				}
				for _, cs := range fr.contract.Calls {
					for _, l := range cs.Lets {
						if string(u) == "unknown identifier in contract: "+l.Label {
							t, ok = True, false
							return
						}
					}
				}
				for _, cs := range fr.contract.Cuts {
					for _, l := range cs.Lets {
						if string(u) == "unknown identifier in contract: "+l.Label {
							t, ok = True, false
							return
						}
					}
				}
			}
			panic(r)
		}
	}()
	return e.evalBool(sc, c.E), true
}

// closureOnly reports whether a heap-allocated local escapes only because function literals of
// its own function capture it: every use is a load, a store into it, an interior address that
// is itself only loaded/stored, or a closure binding. Such a variable cannot be reached by a
// callee unless one of those closures is handed to it (assumption, see DESIGN).
func closureOnly(al *ssa.Alloc) bool {
	var ok func(v ssa.Value, depth int) bool
	ok = func(v ssa.Value, depth int) bool {
		if depth > 4 || v.Referrers() == nil {
			return false
		}
		for _, r := range *v.Referrers() {
			switch x := r.(type) {
			case *ssa.DebugRef:
			case *ssa.UnOp:
				if x.Op != token.MUL {
					return false
				}
			case *ssa.Store:
				if x.Addr != v {
					return false // the address itself is stored somewhere
				}
			case *ssa.MakeClosure:
			case *ssa.FieldAddr:
				if !ok(x, depth+1) {
					return false
				}
			case *ssa.IndexAddr:
				if x.X != v || !ok(x, depth+1) {
					return false
				}
			default:
				return false
			}
		}
		return true
	}
	return ok(al, 0)
}

// isLocalName reports whether name is a source-level local variable of fn (it has a DebugRef).
func isLocalName(fn *ssa.Function, name string) bool {
	for _, b := range fn.Blocks {
		for _, ins := range b.Instrs {
			if d, ok := ins.(*ssa.DebugRef); ok && identName(d) == name {
				return true
			}
		}
	}
	return false
}

// lastPhiIdx is the index of the last phi of a block (0 if it has none).
func lastPhiIdx(b *ssa.BasicBlock) int {
	k := 0
	for i, ins := range b.Instrs {
		if _, ok := ins.(*ssa.Phi); ok {
			k = i
		}
	}
	return k
}

// bodyRegion is the set of blocks encoded for a loop-body contract: the natural loop plus the
// tails that leave it (code executed after deciding to break or return, before control reaches
// the block following the loop). Without a loop condition at the head there is no such distinguished
// following block and the natural loop is used as is.
func bodyRegion(li *LoopInfo) map[*ssa.BasicBlock]bool {
	var natural *ssa.BasicBlock
	natural = naturalExit(li)
	r := map[*ssa.BasicBlock]bool{}
	for b := range li.blocks {
		r[b] = true
	}
	// a tail is a block outside the natural loop that can only be entered from the loop (or from
	// other tails); the block the loop condition exits to, and what follows it, is not a tail
	for changed := true; changed; {
		changed = false
		for _, b := range li.header.Parent().Blocks {
			if r[b] || !li.header.Dominates(b) || b == natural || (natural != nil && natural.Dominates(b) && !natural.Dominates(li.header)) || len(b.Preds) == 0 {
				continue
			}
			all := true
			for _, p := range b.Preds {
				if !r[p] {
					all = false
					break
				}
			}
			if all {
				r[b] = true
				changed = true
			}
		}
	}
	return r
}

// naturalExit is the block a loop's own condition exits to, when the loop head tests that
// condition (go/ssa names such heads "for.loop", "rangeindex.loop", ...). Rotated loops (range
// over an integer) and `for {}` have none.
func naturalExit(li *LoopInfo) *ssa.BasicBlock {
	if !strings.HasSuffix(li.header.Comment, ".loop") {
		return nil
	}
	if _, isIf := li.header.Instrs[len(li.header.Instrs)-1].(*ssa.If); !isIf {
		return nil
	}
	for _, s := range li.header.Succs {
		if !li.blocks[s] {
			return s
		}
	}
	return nil
}
