package main

// Evaluation of contract expressions to SMT terms in a given scope/state.

import (
	"fmt"
	"go/ast"
	"go/constant"
	"go/token"
	"go/types"
	"math"
	"math/big"
	"strconv"
	"strings"

	"golang.org/x/tools/go/ssa"
)

type Scope struct {
	fr      *Frame
	blk     *ssa.BasicBlock
	idx     int
	st      *State
	old     *State
	over    map[ssa.Value]Val
	oldOver map[ssa.Value]Val
	vars    map[string]Val
	oldVars map[string]Val
	pkg     *types.Package
	inOld   bool
	entry   bool // resolve names to parameters only (function entry)
	oldHdr  *ssa.BasicBlock // loop-body contracts: old() refers to this loop head
}

func (sc *Scope) with(name string, v Val) *Scope {
	n := *sc
	n.vars = map[string]Val{}
	for k, x := range sc.vars {
		n.vars[k] = x
	}
	n.vars[name] = v
	return &n
}

func (e *Enc) scopeAt(fr *Frame, b *ssa.BasicBlock, idx int, st *State) *Scope {
	sc := &Scope{fr: fr, blk: b, idx: idx, st: st, old: fr.entrySt, vars: map[string]Val{}, pkg: fr.fn.Pkg.Pkg}
	for k, v := range fr.lets {
		sc.vars[k] = v
	}
	return sc
}

func (e *Enc) scopeEntry(fr *Frame) *Scope {
	sc := e.scopeAt(fr, fr.fn.Blocks[0], -1, fr.entrySt)
	sc.entry = true
	return sc
}

func (e *Enc) evalBool(sc *Scope, x CExpr) T {
	v := e.eval(sc, x, types.Typ[types.Bool])
	if len(v.L) != 1 || v.L[0].S.K != SBool {
		panic(unsupported("contract clause is not boolean: " + x.String()))
	}
	return v.L[0]
}

var binTok = map[string]token.Token{
	"+": token.ADD, "-": token.SUB, "*": token.MUL, "/": token.QUO, "%": token.REM,
	"&": token.AND, "|": token.OR, "^": token.XOR, "&^": token.AND_NOT, "<<": token.SHL, ">>": token.SHR,
	"==": token.EQL, "!=": token.NEQ, "<": token.LSS, "<=": token.LEQ, ">": token.GTR, ">=": token.GEQ,
}

func isLitExpr(x CExpr) bool {
	switch y := x.(type) {
	case *CLit:
		return true
	case *CUn:
		return y.Op == "-" && isLitExpr(y.X)
	case *CIdent:
		return y.Name == "nil"
	}
	return false
}

func (e *Enc) eval(sc *Scope, x CExpr, hint types.Type) Val {
	switch n := x.(type) {
	case *CLit:
		return e.evalLit(n, hint)
	case *CIdent:
		return e.evalIdent(sc, n, hint)
	case *CUn:
		switch n.Op {
		case "!":
			v := e.eval(sc, n.X, types.Typ[types.Bool])
			return Val{Typ: types.Typ[types.Bool], L: []T{Not(v.L[0])}}
		case "-":
			if l, ok := n.X.(*CLit); ok {
				return e.evalLit(&CLit{l.Kind, "-" + l.Val}, hint)
			}
			v := e.eval(sc, n.X, hint)
			e.specEval++
			r := e.neg(v, v.Typ, True, token.NoPos)
			e.specEval--
			r.Typ = v.Typ
			return r
		case "^":
			v := e.eval(sc, n.X, hint)
			return Val{Typ: v.Typ, L: []T{{v.L[0].S, app("bvnot", v.L[0].E)}}}
		case "*":
			v := e.eval(sc, n.X, nil)
			pt, ok := v.Typ.Underlying().(*types.Pointer)
			if !ok {
				panic(unsupported("deref of non-pointer in contract: " + x.String()))
			}
			return e.loadAt(sc.st, v, pt.Elem())
		case "&":
			// &name: the address of an address-taken local variable of the function under contract
			if id, ok := n.X.(*CIdent); ok && sc.fr != nil {
				var found *ssa.Alloc
				for _, b := range sc.fr.fn.Blocks {
					for _, ins := range b.Instrs {
						if al, isAl := ins.(*ssa.Alloc); isAl && al.Comment == id.Name {
							if _, defined := sc.fr.vals[al]; defined || sc.fr.lazy {
								if found == nil || sc.blk == nil || al.Block().Dominates(sc.blk) {
									found = al
								}
							}
						}
					}
				}
				if found != nil {
					v := e.get(sc.fr, found)
					if v.Typ == nil {
						v.Typ = found.Type()
					}
					return v
				}
			}
			// &p.f: the address of a field of the struct p points to
			if sel, ok := n.X.(*CSel); ok {
				base := e.eval(sc, sel.X, nil)
				if base.Typ != nil {
					if pt, isPtr := base.Typ.Underlying().(*types.Pointer); isPtr {
						if stt, isSt := pt.Elem().Underlying().(*types.Struct); isSt {
							for fi := 0; fi < stt.NumFields(); fi++ {
								if stt.Field(fi).Name() == sel.Name {
									space, root, prefix, idxs, glob := e.ptrParts(base)
									ft := stt.Field(fi).Type()
									return Val{Typ: types.NewPointer(ft), L: base.L, P: &PtrInfo{Space: space, Root: root, Prefix: prefix + "." + fieldName(stt, fi), Idxs: idxs, Glob: glob}}
								}
							}
						}
					}
				}
			}
			panic(unsupported("contract expression " + x.String() + " (& needs an address-taken local or a field of a pointed-to struct)"))
		}
	case *CBin:
		return e.evalBin(sc, n, hint)
	case *CCond:
		c := e.evalBool(sc, n.C)
		a := e.eval(sc, n.A, hint)
		b := e.eval(sc, n.B, a.Typ)
		r := e.iteVal(c, a, b)
		r.Typ = a.Typ
		return r
	case *CQuant:
		return e.evalQuant(sc, n)
	case *CSel:
		return e.evalSel(sc, n, hint)
	case *CIndex:
		base := e.eval(sc, n.X, nil)
		switch bt := base.Typ.Underlying().(type) {
		case *types.Slice:
			i := e.eval(sc, n.I, types.Typ[types.Int])
			return e.loadAt(sc.st, e.sliceElemPtr(base, e.toIdx(i, i.Typ)), bt.Elem())
		case *types.Array:
			i := e.eval(sc, n.I, types.Typ[types.Int])
			ix := e.toIdx(i, i.Typ)
			r := Val{Typ: bt.Elem(), L: make([]T, len(base.L))}
			for k, l := range base.L {
				r.L[k] = Select(l, ix)
			}
			return r
		case *types.Map:
			k := e.eval(sc, n.I, bt.Key())
			v, _ := e.mapGet(sc.st, base, bt, k)
			return v
		case *types.Pointer:
			if at, ok := bt.Elem().Underlying().(*types.Array); ok {
				arr := e.loadAt(sc.st, base, bt.Elem())
				i := e.eval(sc, n.I, types.Typ[types.Int])
				ix := e.toIdx(i, i.Typ)
				r := Val{Typ: at.Elem(), L: make([]T, len(arr.L))}
				for k, l := range arr.L {
					r.L[k] = Select(l, ix)
				}
				return r
			}
		}
		panic(unsupported("index in contract: " + x.String()))
	case *CSlice:
		base := e.eval(sc, n.X, nil)
		is := e.idxSort()
		if _, ok := base.Typ.Underlying().(*types.Slice); !ok {
			at, isArr := base.Typ.Underlying().(*types.Array)
			r, et, okRow := T{}, types.Type(nil), false
			if isArr {
				r, et, okRow = e.arrayFieldRow(sc, n.X)
			}
			if !okRow {
				panic(unsupported("slice expr in contract on non-slice: " + x.String()))
			}
			// obj.arr[lo:hi]: a slice of the row that models the array field
			base = Val{Typ: types.NewSlice(et), L: []T{r, IntLit64(is, 0), IntLit64(is, at.Len()), IntLit64(is, at.Len())}}
		}
		lo, hi := IntLit64(is, 0), base.L[2]
		if n.Lo != nil {
			v := e.eval(sc, n.Lo, types.Typ[types.Int])
			lo = e.toIdx(v, v.Typ)
		}
		if n.Hi != nil {
			v := e.eval(sc, n.Hi, types.Typ[types.Int])
			hi = e.toIdx(v, v.Typ)
		}
		return Val{Typ: base.Typ, L: []T{base.L[0], e.addIdx(base.L[1], lo), e.subIdx(hi, lo), e.subIdx(base.L[3], lo)}}
	case *CCall:
		return e.evalCall(sc, n, hint)
	}
	panic(unsupported("contract expression " + x.String()))
}

func (e *Enc) evalLit(n *CLit, hint types.Type) Val {
	switch n.Kind {
	case "int":
		txt := strings.ReplaceAll(n.Val, "_", "")
		v, ok := new(big.Int).SetString(txt, 0)
		if !ok {
			panic(unsupported("bad integer literal " + n.Val))
		}
		t := hint
		if t == nil || !(isInteger(t) || isFloat(t)) {
			t = types.Typ[types.Int]
		}
		if isFloat(t) {
			f, _ := new(big.Float).SetInt(v).Float64()
			return Val{Typ: t, L: []T{IntLit(BV(64), new(big.Int).SetUint64(math.Float64bits(f)))}}
		}
		return Val{Typ: t, L: []T{IntLit(e.sortOfBasic(t.Underlying().(*types.Basic)), v)}}
	case "float":
		f, err := strconv.ParseFloat(strings.ReplaceAll(n.Val, "_", ""), 64)
		if err != nil {
			panic(unsupported("bad float literal " + n.Val))
		}
		return Val{Typ: types.Typ[types.Float64], L: []T{IntLit(BV(64), new(big.Int).SetUint64(math.Float64bits(f)))}}
	case "string":
		s, _ := strconv.Unquote(n.Val)
		return Val{Typ: types.Typ[types.String], L: []T{e.strConst(s)}}
	}
	panic(unsupported("literal " + n.Val))
}

func (e *Enc) evalBin(sc *Scope, n *CBin, hint types.Type) Val {
	bt := types.Typ[types.Bool]
	switch n.Op {
	case "==>":
		a, b := e.evalBool(sc, n.L), e.evalBool(sc, n.R)
		return Val{Typ: bt, L: []T{Implies(a, b)}}
	case "<==>":
		a, b := e.evalBool(sc, n.L), e.evalBool(sc, n.R)
		return Val{Typ: bt, L: []T{Eq(a, b)}}
	case "&&":
		a, b := e.evalBool(sc, n.L), e.evalBool(sc, n.R)
		return Val{Typ: bt, L: []T{And(a, b)}}
	case "||":
		a, b := e.evalBool(sc, n.L), e.evalBool(sc, n.R)
		return Val{Typ: bt, L: []T{Or(a, b)}}
	}
	op, ok := binTok[n.Op]
	if !ok {
		panic(unsupported("operator " + n.Op))
	}
	isCmp := op == token.EQL || op == token.NEQ || op == token.LSS || op == token.LEQ || op == token.GTR || op == token.GEQ
	h := hint
	if isCmp {
		h = nil
	}
	var a, b Val
	if isLitExpr(n.L) && !isLitExpr(n.R) {
		b = e.eval(sc, n.R, h)
		a = e.eval(sc, n.L, b.Typ)
	} else {
		a = e.eval(sc, n.L, h)
		if op == token.SHL || op == token.SHR {
			b = e.eval(sc, n.R, types.Typ[types.Uint])
			if b.L[0].S.K == SInt && a.L[0].S.K == SBV {
				b = Val{Typ: types.Typ[types.Uint64], L: []T{e.intToBV(b.L[0], 64)}}
			}
		} else {
			b = e.eval(sc, n.R, a.Typ)
		}
	}
	if len(a.L) == 1 && len(b.L) == 1 && !a.L[0].S.Eq(b.L[0].S) && op != token.SHL && op != token.SHR {
		// an integer literal against a bit pattern (bits(f) in int mode): re-type the literal
		if v, ok := isLit(b.L[0]); ok && b.L[0].S.K == SInt && a.L[0].S.K == SBV {
			b = Val{Typ: a.Typ, L: []T{IntLit(a.L[0].S, v)}}
		} else if v, ok := isLit(a.L[0]); ok && a.L[0].S.K == SInt && b.L[0].S.K == SBV {
			a = Val{Typ: b.Typ, L: []T{IntLit(b.L[0].S, v)}}
		}
	}
	if len(a.L) == 1 && len(b.L) == 1 && !a.L[0].S.Eq(b.L[0].S) && op != token.SHL && op != token.SHR {
		panic(unsupported(fmt.Sprintf("contract operands of different sorts in %s: %s vs %s (%s / %s)", n.String(), a.L[0].S, b.L[0].S, a.Typ, b.Typ)))
	}
	e.specEval++
	r := e.binop(sc.fr, op, a, b, a.Typ, b.Typ, a.Typ, True, token.NoPos)
	e.specEval--
	if isCmp {
		r.Typ = bt
	} else {
		r.Typ = a.Typ
	}
	return r
}

func (e *Enc) evalQuant(sc *Scope, q *CQuant) Val {
	inner := sc
	var decls []string
	var ranges []T
	for _, v := range q.Vars {
		t := e.resolveTypeName(sc, v.Type)
		sh := e.shape(t)
		if len(sh) != 1 {
			panic(unsupported("quantified variable of composite type " + v.Type))
		}
		e.qCtr++
		name := fmt.Sprintf("q!%s!%d", v.Name, e.qCtr)
		decls = append(decls, fmt.Sprintf("(%s %s)", name, sh[0].S))
		tv := T{sh[0].S, name}
		inner = inner.with(v.Name, Val{Typ: t, L: []T{tv}})
		// Int-sorted bound variables range over all mathematical integers: bodies guard them with
		// in-range program values (0 <= i < len(s)), and ghost integers carry no machine range
		if b, ok := t.Underlying().(*types.Basic); !ok || b.Kind() != types.Int {
			ranges = append(ranges, rangeInv(tv, t))
		}
	}
	e.quantDepth++
	body := e.evalBool(inner, q.Body)
	e.quantDepth--
	// witness candidates for an existential: P(c1) || ... || exists k. P(k)  (hints; sound)
	var candT []T
	if !q.Forall && len(q.Cands) > 0 && len(q.Vars) == 1 {
		v := q.Vars[0]
		vt := e.resolveTypeName(sc, v.Type)
		for _, cx := range q.Cands {
			func() {
				defer func() {
					if r := recover(); r != nil {
						if _, ok := r.(unsupported); ok {
							return // unresolved hint: ignored
						}
						panic(r)
					}
				}()
				cv := e.eval(sc, cx, vt)
				ct := e.toIdx(cv, cv.Typ)
				if e.quantDepth == 0 {
					ct = e.define(ct, "wit")
				}
				in2 := sc.with(v.Name, Val{Typ: vt, L: []T{ct}})
				candT = append(candT, And(rangeInv(ct, vt), e.evalBool(in2, q.Body)))
			}()
		}
	}
	rng := And(ranges...)
	var r T
	if q.Forall {
		r = T{BoolS, fmt.Sprintf("(forall (%s) %s)", strings.Join(decls, " "), Implies(rng, body).E)}
	} else {
		r = T{BoolS, fmt.Sprintf("(exists (%s) %s)", strings.Join(decls, " "), And(rng, body).E)}
		if len(candT) > 0 {
			r = Or(append(candT, r)...)
		}
	}
	return Val{Typ: types.Typ[types.Bool], L: []T{r}}
}

func (e *Enc) resolveTypeName(sc *Scope, name string) types.Type {
	if strings.HasPrefix(name, "*") {
		return types.NewPointer(e.resolveTypeName(sc, name[1:]))
	}
	if strings.HasPrefix(name, "[]") {
		return types.NewSlice(e.resolveTypeName(sc, name[2:]))
	}
	if obj := types.Universe.Lookup(name); obj != nil {
		if tn, ok := obj.(*types.TypeName); ok {
			return tn.Type()
		}
	}
	if i := strings.Index(name, "."); i >= 0 {
		if p := e.findPkg(sc, name[:i]); p != nil {
			if tn, ok := p.Scope().Lookup(name[i+1:]).(*types.TypeName); ok {
				return tn.Type()
			}
		}
	} else if sc.pkg != nil {
		if tn, ok := sc.pkg.Scope().Lookup(name).(*types.TypeName); ok {
			return tn.Type()
		}
	}
	return nil
}

func (e *Enc) findPkg(sc *Scope, name string) *types.Package {
	if sc.pkg != nil {
		for _, imp := range sc.pkg.Imports() {
			if imp.Name() == name {
				return imp
			}
		}
	}
	// fall back: any loaded package with that name
	if p := e.prog.pkgByName[name]; p != nil {
		return p
	}
	return nil
}

func (e *Enc) evalIdent(sc *Scope, n *CIdent, hint types.Type) Val {
	switch n.Name {
	case "true":
		return Val{Typ: types.Typ[types.Bool], L: []T{True}}
	case "false":
		return Val{Typ: types.Typ[types.Bool], L: []T{False}}
	case "nil":
		t := hint
		if t == nil {
			t = types.Typ[types.UntypedNil]
		}
		if _, ok := t.Underlying().(*types.Slice); ok {
			return e.zeroVal(t)
		}
		return Val{Typ: t, L: []T{IntLit64(IntS, 0)}}
	}
	if sc.inOld && sc.oldVars != nil {
		if v, ok := sc.oldVars[n.Name]; ok {
			return v
		}
	}
	if v, ok := sc.vars[n.Name]; ok {
		return v
	}
	if sc.fr != nil {
		if v, ok := e.resolveName(sc, n.Name); ok {
			return v
		}
	}
	if sc.pkg != nil {
		if obj := sc.pkg.Scope().Lookup(n.Name); obj != nil {
			return e.objVal(sc, obj, hint)
		}
	}
	if obj := types.Universe.Lookup(n.Name); obj != nil {
		if c, ok := obj.(*types.Const); ok {
			return e.constTyped(c.Val(), c.Type(), hint)
		}
	}
	// a call-site snapshot (`at call N callee let x := $result`) whose call does not occur on the
	// paths encoded (or no longer exists in the function): whatever the callee would have
	// answered, i.e. an arbitrary value of its result type
	if sc.fr != nil && sc.fr.contract != nil {
		if v, ok := e.absentCallLet(sc, n.Name); ok {
			return v
		}
	}
	panic(unsupported("unknown identifier in contract: " + n.Name))
}

func (e *Enc) absentCallLet(sc *Scope, name string) (Val, bool) {
	fr := sc.fr
	if v, ok := fr.lets[name]; ok {
		return v, true
	}
	for _, cs := range fr.contract.Calls {
		for _, l := range cs.Lets {
			if l.Label != name {
				continue
			}
			_, ex := splitLet(l)
			src := strings.TrimSpace(ex.String())
			k := -1
			switch {
			case src == "$result":
				k = 0
			case strings.HasPrefix(src, "$result") && len(src) == len("$result")+1 && src[len(src)-1] >= '1' && src[len(src)-1] <= '9':
				k = int(src[len(src)-1] - '0')
			default:
				return Val{}, false
			}
			sig := e.calleeSignature(sc, cs.Callee)
			if sig == nil {
				return Val{}, false
			}
			var t types.Type
			switch {
			case k == 0 && sig.Results().Len() == 1:
				t = sig.Results().At(0).Type()
			case k >= 1 && k <= sig.Results().Len():
				t = sig.Results().At(k - 1).Type()
			default:
				return Val{}, false
			}
			v := e.freshVal(t, "absent_"+name)
			v.Typ = t
			fr.lets[name] = v
			return v, true
		}
	}
	return Val{}, false
}

// calleeSignature finds the signature of a callee named as in `at call` clauses:
// "Func", "pkg/path.Func", "(Type).Method", "(*pkg/path.Type).Method".
func (e *Enc) calleeSignature(sc *Scope, key string) *types.Signature {
	lookupPkg := func(path string) *types.Package {
		if path == "" {
			return sc.pkg
		}
		return e.prog.typesPkg(path)
	}
	if strings.HasPrefix(key, "(") {
		i := strings.LastIndex(key, ").")
		if i < 0 {
			return nil
		}
		recv, meth := strings.TrimPrefix(key[1:i], "*"), key[i+2:]
		path, tname := "", recv
		if j := strings.LastIndex(recv, "."); j >= 0 {
			path, tname = recv[:j], recv[j+1:]
		}
		p := lookupPkg(path)
		if p == nil {
			return nil
		}
		tn, ok := p.Scope().Lookup(tname).(*types.TypeName)
		if !ok {
			return nil
		}
		obj, _, _ := types.LookupFieldOrMethod(types.NewPointer(tn.Type()), true, p, meth)
		if obj == nil {
			obj, _, _ = types.LookupFieldOrMethod(tn.Type(), true, p, meth)
		}
		if f, ok := obj.(*types.Func); ok {
			return f.Type().(*types.Signature)
		}
		return nil
	}
	path, fname := "", key
	if j := strings.LastIndex(key, "."); j >= 0 {
		path, fname = key[:j], key[j+1:]
	}
	p := lookupPkg(path)
	if p == nil {
		return nil
	}
	if f, ok := p.Scope().Lookup(fname).(*types.Func); ok {
		return f.Type().(*types.Signature)
	}
	return nil
}

func (e *Enc) constTyped(cv constant.Value, t types.Type, hint types.Type) Val {
	if b, ok := t.Underlying().(*types.Basic); ok && b.Info()&types.IsUntyped != 0 {
		switch {
		case hint != nil && (isInteger(hint) || isFloat(hint)) && (cv.Kind() == constant.Int || cv.Kind() == constant.Float):
			t = hint
		case cv.Kind() == constant.Int:
			t = types.Typ[types.Int]
		case cv.Kind() == constant.Float:
			t = types.Typ[types.Float64]
		case cv.Kind() == constant.String:
			t = types.Typ[types.String]
		case cv.Kind() == constant.Bool:
			t = types.Typ[types.Bool]
		}
	}
	v := e.constOf(cv, t)
	v.Typ = t
	return v
}

func (e *Enc) objVal(sc *Scope, obj types.Object, hint types.Type) Val {
	switch o := obj.(type) {
	case *types.Const:
		return e.constTyped(o.Val(), o.Type(), hint)
	case *types.Var:
		g := e.prog.globalFor(o)
		if g == nil {
			panic(unsupported("package variable without SSA global: " + o.Name()))
		}
		p := Val{Typ: g.Type(), L: []T{IntLit64(IntS, 1)}, P: &PtrInfo{Space: "G", Root: o.Type(), Glob: g}}
		return e.loadAt(sc.st, p, o.Type())
	case *types.Func:
		fn := e.prog.ssaProg.FuncValue(o)
		return Val{Typ: o.Type(), L: []T{IntLit64(IntS, 1)}, Fn: fn}
	}
	panic(unsupported("object " + obj.Name()))
}

// resolveName finds the SSA value a source-level name denotes at the scope's program point.
func (e *Enc) resolveName(sc *Scope, name string) (Val, bool) {
	fr := sc.fr
	fn := fr.fn
	over := sc.over
	if sc.inOld {
		over = sc.oldOver
	}
	getv := func(v ssa.Value, isAddr bool) Val {
		if ov, ok := over[v]; ok {
			return ov
		}
		if sc.inOld && !sc.entry {
			// old(x) for a header phi in a loop-body contract is the phi itself
		}
		x := e.get(fr, v)
		if isAddr {
			pt := v.Type().Underlying().(*types.Pointer)
			return e.loadAt(sc.st, x, pt.Elem())
		}
		if x.Typ == nil {
			x.Typ = v.Type()
		}
		return x
	}
	scan := func() (Val, bool) {
		b := sc.blk
		idx := sc.idx
		for b != nil {
			instrs := b.Instrs
			if idx >= len(instrs) {
				idx = len(instrs) - 1
			}
			for i := idx; i >= 0; i-- {
				switch d := instrs[i].(type) {
				case *ssa.DebugRef:
					if id := identName(d); id == name {
						if al := allocNamed(fn, name, b); al != nil && !d.IsAddr && loadOfAlloc(d.X) == nil && storedToAlloc(d.X, name) == nil {
							// some mention of an address-taken local (e.g. its initial constant): the
							// variable's current value is what its cell holds now
							if _, isConst := d.X.(*ssa.Const); isConst {
								if _, defined := fr.vals[al]; defined || fr.lazy {
									return getv(al, true), true
								}
							}
						}
						if al := storedToAlloc(d.X, name); al != nil && !d.IsAddr {
							// the value just assigned to an address-taken local: the variable's
							// current value is what its cell holds now
							if _, defined := fr.vals[al]; defined || fr.lazy {
								return getv(al, true), true
							}
						}
						if al := loadOfAlloc(d.X); al != nil && !d.IsAddr {
							// a use of an address-taken local: its current value is what the cell holds now
							if _, defined := fr.vals[al]; defined || fr.lazy {
								return getv(al, true), true
							}
						}
						if _, defined := fr.vals[d.X]; defined || isConstOrParam(d.X) || fr.lazy {
							if !d.IsAddr && b != sc.blk && staleBetween(fn, name, d, b, sc.blk) {
								// the variable was assigned on some path between this definition and the
								// program point but SSA kept no merged value (it is dead there)
								panic(unsupported("variable " + name + " has no single value at this program point (assigned on some paths and dead afterwards); snapshot it with `at stmt ... let`"))
							}
							return getv(d.X, d.IsAddr), true
						}
					}
				case *ssa.Phi:
					// `rangeiter` names the hidden counter of the nearest enclosing `for i := range n` (integer range)
					if d.Comment == name || (name == "rangeiter" && d.Comment == "rangeint.iter") {
						// Go 1.22 per-iteration loop variables that are captured: the phi holds the
						// address of the current iteration's copy of the variable
						isCell := false
						if _, isPtr := d.Type().Underlying().(*types.Pointer); isPtr {
							for _, ed := range d.Edges {
								if al, ok := ed.(*ssa.Alloc); ok && al.Comment == name {
									isCell = true
								}
							}
						}
						return getv(d, isCell), true
					}
				}
			}
			b = b.Idom()
			idx = 1 << 30
		}
		return Val{}, false
	}
	if !sc.entry && !(sc.inOld && sc.blk == nil) {
		if v, ok := scan(); ok {
			return v, true
		}
	}
	for _, p := range fn.Params {
		if p.Name() == name {
			// parameters that are reassigned have phis/debugrefs; at entry the parameter itself
			return getv(p, false), true
		}
	}
	for i, fv := range fn.FreeVars {
		if fv.Name() == name && (i < len(fr.bind) || fr.lazy) {
			var v Val
			if i < len(fr.bind) {
				v = fr.bind[i]
			} else {
				v = e.get(fr, fv)
			}
			if pt, ok := fv.Type().Underlying().(*types.Pointer); ok {
				return e.loadAt(sc.st, v, pt.Elem()), true
			}
			return v, true
		}
	}
	// named results at entry are zero; otherwise look for the alloc
	for _, l := range fn.Locals {
		if l.Comment == name {
			return getv(l, true), true
		}
	}
	// a local that escapes to the heap (captured by a function literal): its cell is a plain Alloc
	// instruction, not listed in fn.Locals
	for _, bb := range fn.Blocks {
		for _, ins := range bb.Instrs {
			if al, ok := ins.(*ssa.Alloc); ok && al.Heap && al.Comment == name {
				if _, defined := fr.vals[al]; defined || fr.lazy {
					if sc.blk == nil || al.Block() == sc.blk || al.Block().Dominates(sc.blk) {
						return getv(al, true), true
					}
				}
			}
		}
	}
	if sc.entry && sc.blk != nil && sc.idx >= 0 && !sc.inOld {
		// function-level clause evaluated at a return statement: locals visible there (hints only)
		return scan()
	}
	return Val{}, false
}

// staleBetween reports whether the variable `name`, whose value d was found in dominating block
// defBlk, is also mentioned with a different SSA value in a block lying on some forward path
// from defBlk to useBlk (then d is not necessarily its value at useBlk).
func staleBetween(fn *ssa.Function, name string, d *ssa.DebugRef, defBlk, useBlk *ssa.BasicBlock) bool {
	for _, b2 := range fn.Blocks {
		if b2 == defBlk || b2 == useBlk || !defBlk.Dominates(b2) || b2.Dominates(useBlk) {
			continue
		}
		found := false
		for _, ins := range b2.Instrs {
			if d2, ok := ins.(*ssa.DebugRef); ok && !d2.IsAddr && identName(d2) == name && d2.X != d.X && loadOfAlloc(d2.X) == nil {
				found = true
				break
			}
		}
		if !found {
			continue
		}
		// forward reachability b2 -> useBlk
		seen := map[*ssa.BasicBlock]bool{b2: true}
		stack := []*ssa.BasicBlock{b2}
		for len(stack) > 0 {
			x := stack[len(stack)-1]
			stack = stack[:len(stack)-1]
			if x == useBlk {
				return true
			}
			for _, s := range x.Succs {
				if !seen[s] && !s.Dominates(x) {
					seen[s] = true
					stack = append(stack, s)
				}
			}
		}
	}
	return false
}

// loadOfAlloc returns the Alloc (or FreeVar cell) a value was loaded from, if v is such a load.
func loadOfAlloc(v ssa.Value) ssa.Value {
	u, ok := v.(*ssa.UnOp)
	if !ok || u.Op != token.MUL {
		return nil
	}
	switch x := u.X.(type) {
	case *ssa.Alloc:
		return x
	case *ssa.FreeVar:
		return x
	}
	return nil
}

func isConstOrParam(v ssa.Value) bool {
	switch v.(type) {
	case *ssa.Const, *ssa.Parameter, *ssa.Global, *ssa.FreeVar, *ssa.Function:
		return true
	}
	return false
}

func identName(d *ssa.DebugRef) string {
	if id, ok := d.Expr.(*ast.Ident); ok {
		return id.Name
	}
	return ""
}

func (e *Enc) evalSel(sc *Scope, n *CSel, hint types.Type) Val {
	// package-qualified name?
	if id, ok := n.X.(*CIdent); ok {
		if _, bound := sc.vars[id.Name]; !bound {
			isLocal := false
			if sc.fr != nil {
				if _, ok := e.tryResolve(sc, id.Name); ok {
					isLocal = true
				}
			}
			if !isLocal && (sc.pkg == nil || sc.pkg.Scope().Lookup(id.Name) == nil) {
				if p := e.findPkg(sc, id.Name); p != nil {
					obj := p.Scope().Lookup(n.Name)
					if obj == nil {
						panic(unsupported("unknown " + id.Name + "." + n.Name))
					}
					return e.objVal(sc, obj, hint)
				}
			}
		}
	}
	base := e.eval(sc, n.X, nil)
	return e.selectField(sc, base, n.Name)
}

func (e *Enc) tryResolve(sc *Scope, name string) (v Val, ok bool) {
	defer func() {
		if r := recover(); r != nil {
			if _, isU := r.(unsupported); isU {
				ok = false
				return
			}
			panic(r)
		}
	}()
	return e.resolveName(sc, name)
}

func (e *Enc) ghostFieldType(sc *Scope, gf *GhostField) types.Type {
	dsc := *sc
	if p := e.prog.typesPkg(gf.PkgPath); p != nil {
		dsc.pkg = p
	}
	gt := e.resolveTypeName(&dsc, gf.Type)
	if gt == nil || len(e.shape(gt)) != 1 {
		panic(unsupported("ghost field type: " + gf.Type))
	}
	return gt
}

// ghostFieldHeap returns the heap component holding ghost field gf of values of type t.
func (e *Enc) ghostFieldHeap(sc *Scope, st *State, t types.Type, gf *GhostField) (T, string, Sort) {
	gt := e.ghostFieldType(sc, gf)
	s := e.shape(gt)[0].S
	key := "X|" + typeKey(t) + "|" + gf.Name
	return e.heapGet(st, key, ArrS(IntS, s)), key, s
}

func (e *Enc) selectField(sc *Scope, base Val, name string) Val {
	if base.Typ == nil {
		panic(unsupported("selector on untyped value ." + name))
	}
	// ghost field of a named (interface) type: specification-only mutable state keyed by the value
	if gf := e.prog.ghostField(base.Typ, name); gf != nil {
		if _, isStruct := base.Typ.Underlying().(*types.Struct); isStruct {
			// a struct VALUE has no identity to key ghost state by; an addressable local is written (&x).f
			panic(unsupported("ghost field ." + name + " of a struct value: write (&x)." + name + " for an addressable local"))
		}
		h, _, _ := e.ghostFieldHeap(sc, sc.st, base.Typ, gf)
		gt := e.ghostFieldType(sc, gf)
		return Val{Typ: gt, L: []T{Select(h, base.L[0])}}
	}
	obj, index, _ := types.LookupFieldOrMethod(base.Typ, true, sc.pkg, name)
	if obj == nil {
		// try with the package of the named type (unexported fields)
		if nt := namedOf(base.Typ); nt != nil && nt.Obj().Pkg() != nil {
			obj, index, _ = types.LookupFieldOrMethod(base.Typ, true, nt.Obj().Pkg(), name)
		}
	}
	fv, ok := obj.(*types.Var)
	if !ok {
		panic(unsupported(fmt.Sprintf("no field %s in %s", name, base.Typ)))
	}
	_ = fv
	cur := base
	for _, fi := range index {
		switch ut := cur.Typ.Underlying().(type) {
		case *types.Pointer:
			stt, ok := ut.Elem().Underlying().(*types.Struct)
			if !ok {
				panic(unsupported("selector through non-struct pointer"))
			}
			space, root, prefix, idxs, glob := e.ptrParts(cur)
			fp := Val{Typ: types.NewPointer(stt.Field(fi).Type()), L: cur.L, P: &PtrInfo{Space: space, Root: root, Prefix: prefix + "." + fieldName(stt, fi), Idxs: idxs, Glob: glob}}
			cur = e.loadAt(sc.st, fp, stt.Field(fi).Type())
		case *types.Struct:
			lo, hi := e.fieldRange(ut, fi)
			cur = Val{Typ: ut.Field(fi).Type(), L: cur.L[lo:hi]}
		default:
			panic(unsupported("selector on " + cur.Typ.String()))
		}
	}
	return cur
}

func namedOf(t types.Type) *types.Named {
	for {
		switch x := t.(type) {
		case *types.Named:
			return x
		case *types.Pointer:
			t = x.Elem()
		case *types.Alias:
			t = types.Unalias(x)
		default:
			return nil
		}
	}
}

// applyGhost applies an uninterpreted ghost function; its parameter/result type names are
// resolved in the package that declares it.
func (e *Enc) applyGhost(sc *Scope, g *GhostFunc, pkgPath string, n *CCall) Val {
	if len(n.Args) != len(g.Params) {
		panic(unsupported("ghost function arity: " + n.String()))
	}
	dsc := *sc
	if p := e.prog.typesPkg(pkgPath); p != nil {
		dsc.pkg = p
	}
	rt := e.resolveTypeName(&dsc, g.Result)
	if rt == nil || len(e.shape(rt)) != 1 {
		panic(unsupported("ghost function result type: " + g.Result))
	}
	var sorts, terms []string
	for i, a := range n.Args {
		pt := e.resolveTypeName(&dsc, g.Params[i])
		if pt == nil || len(e.shape(pt)) != 1 {
			panic(unsupported("ghost function parameter type: " + g.Params[i]))
		}
		v := e.eval(sc, a, pt)
		sorts = append(sorts, e.shape(pt)[0].S.String())
		terms = append(terms, v.L[0].E)
	}
	rs := e.shape(rt)[0].S
	fname := "ghost_" + sanitize(g.Name)
	e.declUF(fname, "("+strings.Join(sorts, " ")+") "+rs.String())
	return Val{Typ: rt, L: []T{{rs, app(fname, terms...)}}}
}

func (e *Enc) evalCall(sc *Scope, n *CCall, hint types.Type) Val {
	if sel, ok := n.Fun.(*CSel); ok {
		if _, isId := sel.X.(*CIdent); isId {
			if g, gp := e.prog.ghostFuncAny(sel.Name); g != nil {
				return e.applyGhost(sc, g, gp, n)
			}
		}
	}
	if id, ok := n.Fun.(*CIdent); ok {
		switch id.Name {
		case "old":
			o := *sc
			o.inOld = true
			o.st = sc.old
			if sc.old == nil {
				panic(unsupported("old() without a pre-state"))
			}
			if sc.oldHdr != nil {
				// loop-body contract: old(x) is x at the loop head of this iteration
				o.blk, o.idx, o.entry, o.over = sc.oldHdr, 0, false, nil
				for i, ins := range sc.oldHdr.Instrs {
					if _, ok := ins.(*ssa.Phi); ok {
						o.idx = i
					}
				}
			} else {
				o.entry = true // function contract: old(x) is x at function entry
				o.over = nil
			}
			return e.eval(&o, n.Args[0], hint)
		case "sameArray":
			// sameArray(x, y): the two slices share their backing array
			a := e.eval(sc, n.Args[0], nil)
			b := e.eval(sc, n.Args[1], nil)
			_, oka := a.Typ.Underlying().(*types.Slice)
			_, okb := b.Typ.Underlying().(*types.Slice)
			if !oka || !okb {
				panic(unsupported("sameArray needs two slices"))
			}
			return Val{Typ: types.Typ[types.Bool], L: []T{And(Eq(a.L[0], b.L[0]), Not(Eq(a.L[0], IntLit64(IntS, 0))))}}
		case "fresh":
			// fresh(x): the slice / pointer / map x is nil or was allocated by the function under
			// contract (its reference is not below the allocation frontier at function entry)
			a := e.eval(sc, n.Args[0], nil)
			switch a.Typ.Underlying().(type) {
			case *types.Slice, *types.Pointer, *types.Map:
			default:
				panic(unsupported("fresh needs a slice, pointer or map"))
			}
			top0 := e.epochGet(e.ep0, "!top", IntS)
			cur := e.heapGet(sc.st, "!top", IntS)
			r := a.L[0]
			return Val{Typ: types.Typ[types.Bool], L: []T{Or(Eq(r, IntLit64(IntS, 0)), And(T{BoolS, app("<=", top0.E, r.E)}, T{BoolS, app("<", r.E, cur.E)}))}}
		case "called":
			// called(Name): a function or method with this name was called on the current path
			// since the region (loop iteration / function) was entered
			nm := n.Args[0].String()
			return Val{Typ: types.Typ[types.Bool], L: []T{e.heapGet(sc.st, "!called|"+nm, BoolS)}}
		case "ncalls":
			// ncalls(Name): how many calls of a function or method with this name happened on the
			// current path since the region was entered (a mathematical integer)
			nm := n.Args[0].String()
			t := e.heapGet(sc.st, "!ncalls|"+nm, IntS)
			if e.idxSort().K == SBV {
				t = e.intToBV(t, 64)
			}
			return Val{Typ: types.Typ[types.Int], L: []T{t}}
		case "len", "cap":
			v := e.eval(sc, n.Args[0], nil)
			switch ut := v.Typ.Underlying().(type) {
			case *types.Slice:
				if id.Name == "len" {
					return Val{Typ: types.Typ[types.Int], L: []T{v.L[2]}}
				}
				return Val{Typ: types.Typ[types.Int], L: []T{v.L[3]}}
			case *types.Array:
				return Val{Typ: types.Typ[types.Int], L: []T{IntLit64(e.idxSort(), ut.Len())}}
			case *types.Map:
				return Val{Typ: types.Typ[types.Int], L: []T{e.mapLen(sc.st, v, ut)}}
			case *types.Basic:
				if isString(v.Typ) {
					e.declUF("strlen", "(Real) "+e.idxSort().String())
					return Val{Typ: types.Typ[types.Int], L: []T{{e.idxSort(), app("strlen", v.L[0].E)}}}
				}
			}
			panic(unsupported("len of " + v.Typ.String()))
		case "bits":
			v := e.eval(sc, n.Args[0], types.Typ[types.Float64])
			if v.L[0].S.W == 32 {
				return Val{Typ: types.Typ[types.Uint32], L: v.L}
			}
			return Val{Typ: types.Typ[types.Uint64], L: v.L}
		case "isNaN":
			v := e.eval(sc, n.Args[0], types.Typ[types.Float64])
			return Val{Typ: types.Typ[types.Bool], L: []T{{BoolS, app("fp.isNaN", ToFP(v.L[0]))}}}
		case "has":
			m := e.eval(sc, n.Args[0], nil)
			mt := m.Typ.Underlying().(*types.Map)
			k := e.eval(sc, n.Args[1], mt.Key())
			_, ok := e.mapGet(sc.st, m, mt, k)
			return Val{Typ: types.Typ[types.Bool], L: []T{ok}}
		case "min", "max":
			a := e.eval(sc, n.Args[0], hint)
			for _, ax := range n.Args[1:] {
				b := e.eval(sc, ax, a.Typ)
				e.specEval++
				var c Val
				if id.Name == "min" {
					c = e.binop(sc.fr, token.LSS, a, b, a.Typ, b.Typ, a.Typ, True, token.NoPos)
				} else {
					c = e.binop(sc.fr, token.GTR, a, b, a.Typ, b.Typ, a.Typ, True, token.NoPos)
				}
				e.specEval--
				t := a.Typ
				a = e.iteVal(c.L[0], a, b)
				a.Typ = t
			}
			return a
		case "bsEmpty", "bsAppend", "bsTake", "bsCap":
			// ghost bit-stream window (256 bits, right-aligned: the first bit written is the most
			// significant of the n bits held). bsAppend(s, u, k): s followed by the k low bits of u.
			// bsTake(s, n, pos, k): the k bits at positions [pos, pos+k) of the n-bit stream s, as uint64.
			bt := e.resolveTypeName(sc, "verifspec.Bits256")
			if bt == nil {
				panic(unsupported("verifspec.Bits256 is not imported by this package"))
			}
			if e.idxSort().K != SBV {
				panic(unsupported("bit-stream ghost functions need mode bv"))
			}
			bw := e.bitsWidth()
			z192 := func(t T) string { return fmt.Sprintf("((_ zero_extend %d) %s)", bw-64, t.E) }
			mask := func(k T) string { // mask of k low bits (k: 64-bit vector, k <= 64 intended)
				return fmt.Sprintf("(bvsub (bvshl (_ bv1 %d) %s) (_ bv1 %d))", bw, z192(k), bw)
			}
			switch id.Name {
			case "bsCap":
				return Val{Typ: types.Typ[types.Int], L: []T{IntLit64(e.idxSort(), int64(bw))}}
			case "bsEmpty":
				return Val{Typ: bt, L: []T{{BV(bw), fmt.Sprintf("(_ bv0 %d)", bw)}}}
			case "bsAppend":
				s := e.eval(sc, n.Args[0], bt)
				u := e.eval(sc, n.Args[1], types.Typ[types.Uint64])
				k := e.eval(sc, n.Args[2], types.Typ[types.Int])
				if u.L[0].S.W != 64 {
					panic(unsupported("bsAppend needs a 64-bit value"))
				}
				r := app("bvor", app("bvshl", s.L[0].E, z192(k.L[0])), app("bvand", z192(u.L[0]), mask(k.L[0])))
				return Val{Typ: bt, L: []T{{BV(bw), r}}}
			default:
				s := e.eval(sc, n.Args[0], bt)
				nn := e.eval(sc, n.Args[1], types.Typ[types.Int])
				pos := e.eval(sc, n.Args[2], types.Typ[types.Int])
				k := e.eval(sc, n.Args[3], types.Typ[types.Int])
				sh := T{BV(64), app("bvsub", app("bvsub", nn.L[0].E, pos.L[0].E), k.L[0].E)}
				r := "((_ extract 63 0) " + app("bvand", app("bvlshr", s.L[0].E, z192(sh)), mask(k.L[0])) + ")"
				return Val{Typ: types.Typ[types.Uint64], L: []T{{BV(64), r}}}
			}
		case "errIs":
			a := e.eval(sc, n.Args[0], nil)
			b := e.eval(sc, n.Args[1], nil)
			return Val{Typ: types.Typ[types.Bool], L: []T{e.errIs(a.L[0], b.L[0])}}
		case "typeIs":
			a := e.eval(sc, n.Args[0], nil)
			tn := n.Args[1].String()
			t := e.resolveTypeName(sc, tn)
			if t == nil {
				panic(unsupported("unknown type " + tn))
			}
			e.declUF("iface_type", "(Int) Int")
			return Val{Typ: types.Typ[types.Bool], L: []T{And(Not(Eq(a.L[0], IntLit64(IntS, 0))), Eq(T{IntS, app("iface_type", a.L[0].E)}, IntLit64(IntS, int64(e.prog.typeID(t)))))}}
		}
		// ghost function declared in a contract file: `//@ ghost func name(T1, T2) R` (uninterpreted)
		if g, gp := e.prog.ghostFuncAny(id.Name); g != nil {
			return e.applyGhost(sc, g, gp, n)
		}
		// conversion T(x)?
		if _, bound := sc.vars[id.Name]; !bound && len(n.Args) == 1 {
			if t := e.resolveTypeName(sc, id.Name); t != nil {
				v := e.eval(sc, n.Args[0], t)
				e.specEval++
				r := e.convert(v, v.Typ, t, True, token.NoPos)
				e.specEval--
				r.Typ = t
				return r
			}
		}
	}
	if sel, ok := n.Fun.(*CSel); ok && len(n.Args) == 1 {
		// pkg.Type(x) conversion
		if id, ok := sel.X.(*CIdent); ok {
			if t := e.resolveTypeName(sc, id.Name+"."+sel.Name); t != nil {
				v := e.eval(sc, n.Args[0], t)
				e.specEval++
				r := e.convert(v, v.Typ, t, True, token.NoPos)
				e.specEval--
				r.Typ = t
				return r
			}
		}
	}
	// a function-typed parameter under `opt dyncalls=uf`: the same uninterpreted function as in the code
	if id, ok := n.Fun.(*CIdent); ok && sc.fr != nil && e.contract != nil && e.contract.Opts["dyncalls"] == "uf" {
		for _, p := range sc.fr.fn.Params {
			sig, isSig := p.Type().Underlying().(*types.Signature)
			if p.Name() != id.Name || !isSig || len(n.Args) != sig.Params().Len() {
				continue
			}
			var args []Val
			for i, a := range n.Args {
				v := e.eval(sc, a, sig.Params().At(i).Type())
				v.Typ = sig.Params().At(i).Type()
				args = append(args, v)
			}
			rs := e.pureUF("dyn_"+p.Name(), args, sig)
			if len(rs) == 1 {
				return rs[0]
			}
			return Val{Typ: sig.Results(), Tup: rs}
		}
	}
	// call of a real (pure) Go function or method, evaluated by inlining its SSA in the scope's state
	fn, recv := e.resolveCallee(sc, n.Fun)
	if fn == nil {
		panic(unsupported("cannot resolve callee in contract: " + n.String()))
	}
	var args []Val
	if recv != nil {
		args = append(args, *recv)
	}
	sig := fn.Signature
	for i, a := range n.Args {
		var pt types.Type
		if i < sig.Params().Len() {
			pt = sig.Params().At(i).Type()
		}
		v := e.eval(sc, a, pt)
		if pt != nil {
			v.Typ = pt
		}
		args = append(args, v)
	}
	return e.pureCall(sc, fn, args)
}

func (e *Enc) pureCall(sc *Scope, fn *ssa.Function, args []Val) Val {
	if r, ok := e.intrinsic(sc.fr, fn, args, True, sc.st, token.NoPos); ok {
		if r.Typ == nil && fn.Signature.Results().Len() == 1 {
			r.Typ = fn.Signature.Results().At(0).Type()
		}
		return r
	}
	if ct := e.prog.contractFor(fn); ct != nil && ct.Pure && ct.Opts["uf"] == "1" {
		who := fn.RelString(nil)
		rs := e.pureUF(who, args, fn.Signature)
		if len(rs) == 1 {
			return rs[0]
		}
		return Val{Typ: fn.Signature.Results(), Tup: rs}
	}
	if fn.Blocks == nil {
		panic(unsupported("spec call to function without body: " + fn.String()))
	}
	e.specEval++
	st := sc.st.clone()
	res, _ := e.inline(nil, fn, args, nil, True, st, 1, "spec")
	e.specEval--
	if len(res) != 1 {
		if len(res) == 0 {
			panic(unsupported("spec call to function without result: " + fn.String()))
		}
		tv := Val{Typ: fn.Signature.Results(), Tup: res}
		return tv
	}
	r := res[0]
	r.Typ = fn.Signature.Results().At(0).Type()
	return r
}

func (e *Enc) resolveCallee(sc *Scope, f CExpr) (*ssa.Function, *Val) {
	switch x := f.(type) {
	case *CIdent:
		if sc.pkg != nil {
			if fo, ok := sc.pkg.Scope().Lookup(x.Name).(*types.Func); ok {
				return e.prog.ssaProg.FuncValue(fo), nil
			}
		}
	case *CSel:
		if id, ok := x.X.(*CIdent); ok {
			_, bound := sc.vars[id.Name]
			isLocal := bound
			if !isLocal && sc.fr != nil {
				_, isLocal = e.tryResolve(sc, id.Name)
			}
			if !isLocal && (sc.pkg == nil || sc.pkg.Scope().Lookup(id.Name) == nil) {
				if p := e.findPkg(sc, id.Name); p != nil {
					if fo, ok := p.Scope().Lookup(x.Name).(*types.Func); ok {
						return e.prog.ssaProg.FuncValue(fo), nil
					}
				}
			}
		}
		recv, isAddr := e.evalAddr(sc, x.X)
		if !isAddr {
			recv = e.eval(sc, x.X, nil)
		} else if _, isPtrVal := recv.Typ.Underlying().(*types.Pointer).Elem().Underlying().(*types.Pointer); isPtrVal {
			// the expression itself is a pointer-typed field: use its value as receiver
			recv = e.loadAt(sc.st, recv, recv.Typ.Underlying().(*types.Pointer).Elem())
		} else if _, isIface := recv.Typ.Underlying().(*types.Pointer).Elem().Underlying().(*types.Interface); isIface {
			recv = e.loadAt(sc.st, recv, recv.Typ.Underlying().(*types.Pointer).Elem())
		}
		pkg := sc.pkg
		if nt := namedOf(recv.Typ); nt != nil && nt.Obj().Pkg() != nil {
			pkg = nt.Obj().Pkg()
		}
		obj, index, _ := types.LookupFieldOrMethod(recv.Typ, true, pkg, x.Name)
		fo, ok := obj.(*types.Func)
		if !ok {
			return nil, nil
		}
		// walk embedded path
		cur := recv
		for _, fi := range index[:len(index)-1] {
			switch ut := cur.Typ.Underlying().(type) {
			case *types.Pointer:
				stt := ut.Elem().Underlying().(*types.Struct)
				space, root, prefix, idxs, glob := e.ptrParts(cur)
				fp := Val{Typ: types.NewPointer(stt.Field(fi).Type()), L: cur.L, P: &PtrInfo{Space: space, Root: root, Prefix: prefix + "." + fieldName(stt, fi), Idxs: idxs, Glob: glob}}
				if _, isPtr := stt.Field(fi).Type().Underlying().(*types.Pointer); isPtr {
					cur = e.loadAt(sc.st, fp, stt.Field(fi).Type())
				} else {
					cur = fp
				}
			case *types.Struct:
				lo, hi := e.fieldRange(ut, fi)
				cur = Val{Typ: ut.Field(fi).Type(), L: cur.L[lo:hi]}
			}
		}
		fn := e.prog.ssaProg.FuncValue(fo)
		if fn == nil {
			return nil, nil
		}
		sig := fo.Type().(*types.Signature)
		_, wantPtr := sig.Recv().Type().Underlying().(*types.Pointer)
		_, havePtr := cur.Typ.Underlying().(*types.Pointer)
		switch {
		case wantPtr == havePtr:
		case !wantPtr && havePtr:
			cur = e.loadAt(sc.st, cur, cur.Typ.Underlying().(*types.Pointer).Elem())
		default:
			panic(unsupported("spec method call needs addressable receiver: " + x.String()))
		}
		return fn, &cur
	}
	return nil, nil
}

func (e *Enc) errIs(a, b T) T {
	e.declUF("err_wraps", "(Int Int) Bool")
	return Or(Eq(a, b), T{BoolS, app("err_wraps", a.E, b.E)})
}

// evalAddr evaluates x as an addressable location and returns a pointer to it.
func (e *Enc) evalAddr(sc *Scope, x CExpr) (Val, bool) {
	switch n := x.(type) {
	case *CSel:
		if id, ok := n.X.(*CIdent); ok {
			if _, bound := sc.vars[id.Name]; !bound {
				isLocal := false
				if sc.fr != nil {
					_, isLocal = e.tryResolve(sc, id.Name)
				}
				if !isLocal && (sc.pkg == nil || sc.pkg.Scope().Lookup(id.Name) == nil) && e.findPkg(sc, id.Name) != nil {
					return Val{}, false
				}
			}
		}
		var base Val
		if b, ok := e.evalAddr(sc, n.X); ok {
			// base is itself addressable: a struct held by value or a pointer-typed location
			et := b.Typ.Underlying().(*types.Pointer).Elem()
			if _, isPtr := et.Underlying().(*types.Pointer); isPtr {
				base = e.loadAt(sc.st, b, et)
			} else {
				base = b
			}
		} else {
			base = e.eval(sc, n.X, nil)
		}
		pt, ok := base.Typ.Underlying().(*types.Pointer)
		if !ok {
			return Val{}, false
		}
		if _, ok := pt.Elem().Underlying().(*types.Struct); !ok {
			return Val{}, false
		}
		pkg := sc.pkg
		if nt := namedOf(base.Typ); nt != nil && nt.Obj().Pkg() != nil {
			pkg = nt.Obj().Pkg()
		}
		obj, index, _ := types.LookupFieldOrMethod(base.Typ, true, pkg, n.Name)
		if _, ok := obj.(*types.Var); !ok {
			return Val{}, false
		}
		cur := base
		for k, fi := range index {
			stt := cur.Typ.Underlying().(*types.Pointer).Elem().Underlying().(*types.Struct)
			space, root, prefix, idxs, glob := e.ptrParts(cur)
			fp := Val{Typ: types.NewPointer(stt.Field(fi).Type()), L: cur.L, P: &PtrInfo{Space: space, Root: root, Prefix: prefix + "." + fieldName(stt, fi), Idxs: idxs, Glob: glob}}
			if k < len(index)-1 {
				if _, isPtr := stt.Field(fi).Type().Underlying().(*types.Pointer); isPtr {
					fp = e.loadAt(sc.st, fp, stt.Field(fi).Type())
				}
			}
			cur = fp
		}
		return cur, true
	case *CIndex:
		base := e.eval(sc, n.X, nil)
		if _, ok := base.Typ.Underlying().(*types.Slice); ok {
			i := e.eval(sc, n.I, types.Typ[types.Int])
			return e.sliceElemPtr(base, e.toIdx(i, i.Typ)), true
		}
	case *CUn:
		if n.Op == "*" {
			return e.eval(sc, n.X, nil), true
		}
	}
	return Val{}, false
}

// pureUF models the result of a `pure` contract function as an uninterpreted function of its arguments.
func (e *Enc) pureUF(name string, args []Val, sig *types.Signature) []Val {
	var argT []T
	for _, a := range args {
		argT = append(argT, a.L...)
	}
	var out []Val
	for i := 0; i < sig.Results().Len(); i++ {
		rt := sig.Results().At(i).Type()
		sh := e.shape(rt)
		v := Val{Typ: rt, L: make([]T, len(sh))}
		for k, l := range sh {
			fname := fmt.Sprintf("pure_%s_%d_%d", sanitize(name), i, k)
			var sorts, terms []string
			for _, a := range argT {
				sorts = append(sorts, a.S.String())
				terms = append(terms, a.E)
			}
			e.declUF(fname, "("+strings.Join(sorts, " ")+") "+l.S.String())
			if len(terms) == 0 {
				v.L[k] = T{l.S, fname}
			} else {
				v.L[k] = T{l.S, app(fname, terms...)}
			}
		}
		out = append(out, v)
	}
	return out
}

// storedToAlloc: v is stored (somewhere) into the cell of an address-taken local called name.
func storedToAlloc(v ssa.Value, name string) *ssa.Alloc {
	refs := v.Referrers()
	if refs == nil {
		return nil
	}
	for _, r := range *refs {
		if st, ok := r.(*ssa.Store); ok && st.Val == v {
			if al, ok := st.Addr.(*ssa.Alloc); ok && al.Comment == name {
				return al
			}
		}
	}
	return nil
}

// allocNamed finds the cell of an address-taken local called name whose allocation dominates blk.
func allocNamed(fn *ssa.Function, name string, blk *ssa.BasicBlock) *ssa.Alloc {
	for _, bb := range fn.Blocks {
		for _, ins := range bb.Instrs {
			if al, ok := ins.(*ssa.Alloc); ok && al.Comment == name {
				if blk == nil || al.Block() == blk || al.Block().Dominates(blk) {
					return al
				}
			}
		}
	}
	return nil
}
