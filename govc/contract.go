package main

// Contracts are structured //@ comments in <pkg>/zz_verif_contracts.go (build tag verif).

import (
	"bufio"
	"fmt"
	"os"
	"regexp"
	"strconv"
	"strings"
)

type Clause struct {
	Label string
	Src   string
	E     CExpr
	Line  int
}

type LoopSpec struct {
	Ord        int
	Invariants []*Clause
	BodyReq    []*Clause // loop-body contract: requires
	BodyEns    []*Clause // loop-body contract: ensures (checked at every back edge and `continue`)
	ExitEns    []*Clause // loop-body contract: checked on exit edges taken from inside the body
	DoneEns    []*Clause // loop-body contract: checked where the loop's own condition ends the loop (in the loop-head state)
	BreakEns   []*Clause // loop-body contract: checked on exit edges taken from inside the body only (break), not on the condition exit
	Unroll     int
	Modifies   []*Clause
	Decreases  *Clause
	Body       bool
	FrameFresh bool // `loop N frame fresh`: see freshLoop
}

type CutSpec struct {
	Before  bool // cut before the first instruction of the anchored statement (default: after its last)
	Anchor  string
	Asserts []*Clause
	Assumes []*Clause
	Lets    []*Clause // ghost snapshots: name := expr evaluated at the cut
	Hits    int       // how often the cut was reached while encoding (0 after a run = tool error)
}

type CallSpec struct { // obligations at a call site: //@ at call N <callee> assert E   (args as $1..$n, receiver $0)
	Callee  string
	Ord     int // 0 = every call to callee
	Asserts []*Clause
	Lets    []*Clause // ghost snapshots evaluated right after the call ($result = its result)
}

type FuncContract struct {
	Key      string
	PkgPath  string
	Props    []string
	Mode     string
	Requires []*Clause
	Ensures  []*Clause
	TrustedEns []*Clause // `ensures trusted E`: used at call sites, NOT verified against the body (reported as assumption)
	Canaries []*Clause
	Modifies []*Clause
	ModAll   bool // no modifies clause given => callee may modify anything reachable (havoc all)
	Inline   bool
	Trusted  bool
	Pure     bool
	CheckNil bool
	NoPanic  bool
	Loops    map[int]*LoopSpec
	LoopAnchors map[int]string // negative pseudo-ordinals of loops named by source text
	LoopOptional map[int]bool  // `loop? "text" ...`: clauses apply only if such a loop exists
	Cuts     []*CutSpec
	Calls    []*CallSpec
	Lets     []*Clause // let name = expr (evaluated at entry)
	Panics   []*Clause // panics when P
	Notes    []string
	Assume   []*Clause // unchecked assumptions (reported in evidence)
	File     string
	Line     int
	Only     []string // if set, only these obligation kinds are generated (e.g. body contracts)
	Opts     map[string]string
}

type ContractFile struct {
	Path    string
	PkgPath string
	Funcs   []*FuncContract
	Axioms  []*Clause
	Ghosts  []string
}

var kwRe = regexp.MustCompile(`^(func|prop|mode|requires|ensures|canary|modifies|inline|trusted|pure|check|loop|at|let|panics|note|assume|axiom|ghost|only|opt|nopanic)\b`)
var labelRe = regexp.MustCompile(`^\[([^\]]+)\]\s*`)

func parseClause(txt string, line int) (*Clause, error) {
	c := &Clause{Line: line}
	txt = strings.TrimSpace(txt)
	if m := labelRe.FindStringSubmatch(txt); m != nil {
		c.Label = m[1]
		txt = txt[len(m[0]):]
	}
	c.Src = txt
	return c, nil
}

func (c *Clause) finish() error {
	if c.E != nil {
		return nil
	}
	e, err := ParseCExpr(c.Src)
	if err != nil {
		return fmt.Errorf("line %d: %v", c.Line, err)
	}
	c.E = e
	return nil
}

func ParseContractFile(path, pkgPath string) (*ContractFile, error) {
	f, err := os.Open(path)
	if err != nil {
		return nil, err
	}
	defer f.Close()
	cf := &ContractFile{Path: path, PkgPath: pkgPath}
	sc := bufio.NewScanner(f)
	sc.Buffer(make([]byte, 1<<20), 1<<20)
	var cur *FuncContract
	var last *Clause
	var all []*Clause
	ln := 0
	for sc.Scan() {
		ln++
		line := strings.TrimSpace(sc.Text())
		if !strings.HasPrefix(line, "//@") {
			last = nil
			continue
		}
		body := strings.TrimSpace(line[3:])
		if body == "" {
			continue
		}
		m := kwRe.FindString(body)
		if m == "" {
			if last == nil {
				return nil, fmt.Errorf("%s:%d: continuation without clause", path, ln)
			}
			last.Src += " " + body
			continue
		}
		rest := strings.TrimSpace(body[len(m):])
		newClause := func() *Clause {
			c, _ := parseClause(rest, ln)
			last = c
			all = append(all, c)
			return c
		}
		if m == "func" {
			cur = &FuncContract{Key: rest, PkgPath: pkgPath, Loops: map[int]*LoopSpec{}, ModAll: true, File: path, Line: ln, Opts: map[string]string{}}
			cf.Funcs = append(cf.Funcs, cur)
			last = nil
			continue
		}
		if m == "axiom" {
			cf.Axioms = append(cf.Axioms, newClause())
			continue
		}
		if m == "ghost" {
			cf.Ghosts = append(cf.Ghosts, rest)
			last = nil
			continue
		}
		if cur == nil {
			return nil, fmt.Errorf("%s:%d: clause outside func", path, ln)
		}
		switch m {
		case "prop":
			cur.Props = append(cur.Props, strings.Fields(rest)...)
			last = nil
		case "mode":
			cur.Mode = rest
			last = nil
		case "requires":
			cur.Requires = append(cur.Requires, newClause())
		case "ensures":
			if strings.HasPrefix(rest, "trusted ") {
				rest = strings.TrimSpace(rest[8:])
				cur.TrustedEns = append(cur.TrustedEns, newClause())
			} else {
				cur.Ensures = append(cur.Ensures, newClause())
			}
		case "canary":
			rest = strings.TrimSpace(strings.TrimPrefix(rest, "ensures"))
			cur.Canaries = append(cur.Canaries, newClause())
		case "assume":
			cur.Assume = append(cur.Assume, newClause())
		case "panics":
			rest = strings.TrimSpace(strings.TrimPrefix(rest, "when"))
			cur.Panics = append(cur.Panics, newClause())
		case "let":
			parts := strings.SplitN(rest, ":=", 2)
			if len(parts) != 2 {
				return nil, fmt.Errorf("%s:%d: let needs `name := expr`", path, ln)
			}
			rest = strings.TrimSpace(parts[1])
			c := newClause()
			c.Label = strings.TrimSpace(parts[0])
			cur.Lets = append(cur.Lets, c)
		case "modifies":
			cur.ModAll = false
			if rest != "nothing" {
				for _, part := range splitTop(rest) {
					c, _ := parseClause(part, ln)
					all = append(all, c)
					cur.Modifies = append(cur.Modifies, c)
				}
			}
			last = nil
		case "inline":
			cur.Inline = true
			last = nil
		case "trusted":
			cur.Trusted = true
			last = nil
		case "pure":
			cur.Pure = true
			cur.ModAll = false
			last = nil
		case "nopanic":
			cur.NoPanic = true
			last = nil
		case "check":
			if rest == "nil" {
				cur.CheckNil = true
			}
			last = nil
		case "note":
			cur.Notes = append(cur.Notes, rest)
			last = nil
		case "only":
			cur.Only = append(cur.Only, strings.Fields(rest)...)
			last = nil
		case "opt":
			kv := strings.SplitN(rest, "=", 2)
			if len(kv) == 2 {
				cur.Opts[strings.TrimSpace(kv[0])] = strings.TrimSpace(kv[1])
			} else {
				cur.Opts[rest] = "1"
			}
			last = nil
		case "loop":
			// a loop is named by its ordinal (1-based, by position) or by the source text of its
			// `for` line: loop "for _, x := range xs" ... (robust against loops added elsewhere)
			optional := false
			if strings.HasPrefix(rest, "?") {
				optional = true
				rest = strings.TrimSpace(rest[1:])
			}
			if strings.HasPrefix(rest, "\"") {
				q, err := strconv.QuotedPrefix(rest)
				if err != nil {
					return nil, fmt.Errorf("%s:%d: bad loop anchor", path, ln)
				}
				anchor, _ := strconv.Unquote(q)
				// optional occurrence: "text"#2 is the second loop (in source order) starting with text
				if after := rest[len(q):]; strings.HasPrefix(after, "#") {
					k := 1
					for k < len(after) && after[k] >= '0' && after[k] <= '9' {
						k++
					}
					anchor += "\x00" + after[1:k]
					q = q + after[:k]
				}
				ord := 0
				for k, a := range cur.LoopAnchors {
					if a == anchor {
						ord = k
					}
				}
				if ord == 0 {
					ord = -(len(cur.LoopAnchors) + 1)
					if cur.LoopAnchors == nil {
						cur.LoopAnchors = map[int]string{}
					}
					cur.LoopAnchors[ord] = anchor
				}
				if optional {
					if cur.LoopOptional == nil {
						cur.LoopOptional = map[int]bool{}
					}
					cur.LoopOptional[ord] = true
				}
				rest = fmt.Sprintf("%d %s", ord, strings.TrimSpace(rest[len(q):]))
			}
			fs := strings.Fields(rest)
			if len(fs) < 2 {
				return nil, fmt.Errorf("%s:%d: bad loop clause", path, ln)
			}
			ord, err := strconv.Atoi(fs[0])
			if err != nil {
				return nil, fmt.Errorf("%s:%d: bad loop ordinal", path, ln)
			}
			ls := cur.Loops[ord]
			if ls == nil {
				ls = &LoopSpec{Ord: ord}
				cur.Loops[ord] = ls
			}
			kind := fs[1]
			rest = strings.TrimSpace(strings.TrimPrefix(strings.TrimSpace(strings.TrimPrefix(rest, fs[0])), kind))
			switch kind {
			case "invariant":
				ls.Invariants = append(ls.Invariants, newClause())
			case "decreases":
				ls.Decreases = newClause()
			case "frame":
				if rest != "fresh" {
					return nil, fmt.Errorf("%s:%d: loop frame must be `fresh`", path, ln)
				}
				ls.FrameFresh = true
				last = nil
			case "unroll":
				n, err := strconv.Atoi(rest)
				if err != nil {
					return nil, fmt.Errorf("%s:%d: bad unroll", path, ln)
				}
				ls.Unroll = n
				last = nil
			case "body":
				ls.Body = true
				fs2 := strings.Fields(rest)
				if len(fs2) == 0 {
					last = nil
					break
				}
				k2 := fs2[0]
				rest = strings.TrimSpace(strings.TrimPrefix(rest, k2))
				switch k2 {
				case "requires":
					ls.BodyReq = append(ls.BodyReq, newClause())
				case "ensures":
					ls.BodyEns = append(ls.BodyEns, newClause())
				case "exit":
					ls.ExitEns = append(ls.ExitEns, newClause())
				case "done":
					ls.DoneEns = append(ls.DoneEns, newClause())
				case "break":
					ls.BreakEns = append(ls.BreakEns, newClause())
				default:
					return nil, fmt.Errorf("%s:%d: bad loop body clause %q", path, ln, k2)
				}
			case "modifies":
				for _, part := range splitTop(rest) {
					c, _ := parseClause(part, ln)
					all = append(all, c)
					ls.Modifies = append(ls.Modifies, c)
				}
				last = nil
			default:
				return nil, fmt.Errorf("%s:%d: bad loop clause kind %q", path, ln, kind)
			}
		case "at":
			// at stmt "<prefix>" assert E | at stmt "<prefix>" assume E | at call N <callee> assert E
			if strings.HasPrefix(rest, "stmt") {
				rest = strings.TrimSpace(rest[4:])
				q, err := strconv.QuotedPrefix(rest)
				if err != nil {
					return nil, fmt.Errorf("%s:%d: bad anchor", path, ln)
				}
				anchor, _ := strconv.Unquote(q)
				rest = rest[len(q):]
				// optional occurrence: "text"#2 is the second statement (in source order) starting with text
				if strings.HasPrefix(rest, "#") {
					k := 1
					for k < len(rest) && rest[k] >= '0' && rest[k] <= '9' {
						k++
					}
					anchor += "\x00" + rest[1:k]
					rest = rest[k:]
				}
				rest = strings.TrimSpace(rest)
				before := false
				if strings.HasPrefix(rest, "before ") {
					before = true
					rest = strings.TrimSpace(rest[7:])
				}
				var cs *CutSpec
				for _, c := range cur.Cuts {
					if c.Anchor == anchor && c.Before == before {
						cs = c
					}
				}
				if cs == nil {
					cs = &CutSpec{Anchor: anchor, Before: before}
					cur.Cuts = append(cur.Cuts, cs)
				}
				if strings.HasPrefix(rest, "assert") {
					rest = strings.TrimSpace(rest[6:])
					cs.Asserts = append(cs.Asserts, newClause())
				} else if strings.HasPrefix(rest, "assume") {
					rest = strings.TrimSpace(rest[6:])
					cs.Assumes = append(cs.Assumes, newClause())
				} else if strings.HasPrefix(rest, "let ") {
					parts := strings.SplitN(rest[4:], ":=", 2)
					if len(parts) != 2 {
						return nil, fmt.Errorf("%s:%d: at stmt let needs `name := expr`", path, ln)
					}
					rest = strings.TrimSpace(parts[1])
					c := newClause()
					c.Label = strings.TrimSpace(parts[0])
					cs.Lets = append(cs.Lets, c)
				} else {
					return nil, fmt.Errorf("%s:%d: at stmt needs assert/assume", path, ln)
				}
			} else if strings.HasPrefix(rest, "call") {
				fs := strings.Fields(rest)
				if len(fs) < 5 {
					return nil, fmt.Errorf("%s:%d: bad at call", path, ln)
				}
				ord, err := strconv.Atoi(fs[1])
				if err != nil {
					return nil, fmt.Errorf("%s:%d: bad call ordinal", path, ln)
				}
				callee := fs[2]
				var cs *CallSpec
				for _, c := range cur.Calls {
					if c.Callee == callee && c.Ord == ord {
						cs = c
					}
				}
				if cs == nil {
					cs = &CallSpec{Callee: callee, Ord: ord}
					cur.Calls = append(cur.Calls, cs)
				}
				if idx := strings.Index(rest, " let "); idx >= 0 && !strings.Contains(rest[:idx], " assert ") {
					// at call N callee let name := expr   (ghost snapshot taken right after the call; $result is its result)
					parts := strings.SplitN(rest[idx+5:], ":=", 2)
					if len(parts) != 2 {
						return nil, fmt.Errorf("%s:%d: at call let needs `name := expr`", path, ln)
					}
					rest = strings.TrimSpace(parts[1])
					c := newClause()
					c.Label = strings.TrimSpace(parts[0])
					cs.Lets = append(cs.Lets, c)
				} else {
					idx := strings.Index(rest, " assert ")
					if idx < 0 {
						return nil, fmt.Errorf("%s:%d: at call needs assert or let", path, ln)
					}
					rest = strings.TrimSpace(rest[idx+8:])
					cs.Asserts = append(cs.Asserts, newClause())
				}
			} else {
				return nil, fmt.Errorf("%s:%d: bad at clause", path, ln)
			}
		}
	}
	for _, c := range all {
		if err := c.finish(); err != nil {
			return nil, fmt.Errorf("%s: %v", path, err)
		}
	}
	return cf, nil
}

// splitTop splits on commas not nested in parentheses/brackets.
func splitTop(s string) []string {
	var out []string
	depth, start := 0, 0
	for i, c := range s {
		switch c {
		case '(', '[':
			depth++
		case ')', ']':
			depth--
		case ',':
			if depth == 0 {
				out = append(out, strings.TrimSpace(s[start:i]))
				start = i + 1
			}
		}
	}
	if t := strings.TrimSpace(s[start:]); t != "" {
		out = append(out, t)
	}
	return out
}
