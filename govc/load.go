package main

import (
	"strconv"
	"fmt"
	"go/ast"
	"go/token"
	"go/types"
	"os"
	"path/filepath"
	"regexp"
	"sort"
	"strings"

	"golang.org/x/tools/go/packages"
	"golang.org/x/tools/go/ssa"
	"golang.org/x/tools/go/ssa/ssautil"
)

type Program struct {
	fset         *token.FileSet
	pkgs         []*packages.Package
	allPkgs      map[string]*packages.Package
	ssaProg      *ssa.Program
	contracts    map[string]*FuncContract // by full function string
	files        []*ContractFile
	constGlobals map[string]bool
	typeIDs      map[string]int
	pkgByName    map[string]*types.Package
	checkPanics  bool
	srcCache     map[string][]string
	anchors      map[string][2]int
	repo         string
	globals      map[*types.Var]*ssa.Global
	loadSecs     float64
	overlay      map[string][]byte
	fieldArrs    map[string]int
}

const modPath = "github.com/prometheus/prometheus"

func LoadProgram(repo string, patterns []string, overlay map[string][]byte) (*Program, error) {
	cfg := &packages.Config{
		Mode:       packages.LoadAllSyntax,
		Dir:        repo,
		BuildFlags: []string{"-tags=verif"},
		Env:        append(os.Environ(), "GOPROXY=off", "GOFLAGS=", "GOTOOLCHAIN=auto"),
		Overlay:    overlay,
	}
	pkgs, err := packages.Load(cfg, patterns...)
	if err != nil {
		return nil, err
	}
	var errs []string
	packages.Visit(pkgs, nil, func(p *packages.Package) {
		for _, e := range p.Errors {
			errs = append(errs, e.Error())
		}
	})
	if len(errs) > 0 {
		return nil, fmt.Errorf("load errors:\n%s", strings.Join(errs, "\n"))
	}
	prog, _ := ssautil.AllPackages(pkgs, ssa.GlobalDebug|ssa.InstantiateGenerics)
	prog.Build()
	p := &Program{fset: pkgs[0].Fset, pkgs: pkgs, ssaProg: prog, contracts: map[string]*FuncContract{}, constGlobals: map[string]bool{},
		typeIDs: map[string]int{}, pkgByName: map[string]*types.Package{}, srcCache: map[string][]string{},
		anchors: map[string][2]int{}, repo: repo, overlay: overlay, allPkgs: map[string]*packages.Package{}, globals: map[*types.Var]*ssa.Global{}}
	packages.Visit(pkgs, nil, func(pk *packages.Package) {
		p.allPkgs[pk.PkgPath] = pk
		if _, ok := p.pkgByName[pk.Name]; !ok || strings.HasPrefix(pk.PkgPath, modPath) {
			p.pkgByName[pk.Name] = pk.Types
			pkgPathByName[pk.Name] = pk.PkgPath
		}
	})
	// contract files of every loaded package in the module
	var paths []string
	for path := range p.allPkgs {
		paths = append(paths, path)
	}
	sort.Strings(paths)
	for _, path := range paths {
		pk := p.allPkgs[path]
		if !strings.HasPrefix(path, modPath) {
			continue
		}
		for _, f := range pk.GoFiles {
			base := filepath.Base(f)
			if (strings.HasPrefix(base, "zz_verif_contracts") || strings.HasPrefix(base, "zz_verif_lemmas")) && strings.HasSuffix(base, ".go") {
				cf, err := ParseContractFile(f, path)
				if err != nil {
					return nil, err
				}
				p.files = append(p.files, cf)
				for _, fc := range cf.Funcs {
					p.contracts[fullKey(path, fc.Key)] = fc
				}
			}
		}
	}
	// error-typed package variables are constants
	for _, sp := range prog.AllPackages() {
		for _, m := range sp.Members {
			if g, ok := m.(*ssa.Global); ok {
				if v, ok := g.Object().(*types.Var); ok {
					p.globals[v] = g
				}
				et := g.Type().(*types.Pointer).Elem()
				if types.Identical(et, types.Universe.Lookup("error").Type()) && (strings.HasPrefix(g.Name(), "Err") || strings.HasPrefix(g.Name(), "err") || g.Name() == "EOF") {
					p.constGlobals["G|"+sp.Pkg.Path()+"."+g.Name()+"|"] = true
				}
			}
		}
	}
	return p, nil
}

var methKeyRe = regexp.MustCompile(`^\((\*?)(?:([A-Za-z_][A-Za-z0-9_]*)\.)?([A-Za-z_][A-Za-z0-9_]*)(\[[^\]]*\])?\)\.(.+)$`)
var funcKeyRe = regexp.MustCompile(`^([A-Za-z_][A-Za-z0-9_]*)\.([A-Za-z_][A-Za-z0-9_$]*)$`)

// pkgPathByName resolves a package qualifier used in a contract key; set by LoadProgram.
var pkgPathByName = map[string]string{}

func fullKey(pkgPath, key string) string {
	if m := methKeyRe.FindStringSubmatch(key); m != nil {
		pp := pkgPath
		if m[2] != "" {
			if q, ok := pkgPathByName[m[2]]; ok {
				pp = q
			}
		}
		return "(" + m[1] + pp + "." + m[3] + m[4] + ")." + m[5]
	}
	if m := funcKeyRe.FindStringSubmatch(key); m != nil {
		if q, ok := pkgPathByName[m[1]]; ok {
			return q + "." + m[2]
		}
	}
	return pkgPath + "." + key
}

func (p *Program) contractFor(fn *ssa.Function) *FuncContract {
	if c, ok := p.contracts[fn.String()]; ok {
		return c
	}
	if o := fn.Origin(); o != nil && o != fn {
		if c, ok := p.contracts[o.String()]; ok {
			return c
		}
	}
	return nil
}

func (p *Program) contractByFull(key string) *FuncContract { return p.contracts[key] }

// GhostFunc is an uninterpreted specification function declared in a contract file.
type GhostFunc struct {
	Name   string
	Params []string
	Result string
}

var ghostRe = regexp.MustCompile(`^func\s+([A-Za-z_][A-Za-z0-9_]*)\s*\(([^)]*)\)\s*(\S+)$`)

// ghostFuncAny finds a ghost function by name in any contract file (names are unique by convention).
func (p *Program) ghostFuncAny(name string) (*GhostFunc, string) {
	for _, cf := range p.files {
		if g := p.ghostFunc(cf.PkgPath, name); g != nil {
			return g, cf.PkgPath
		}
	}
	return nil, ""
}

// GhostField is a mutable specification-only field of a (typically interface) type:
// `//@ ghost field (Iterator) pos int`.
type GhostField struct {
	TypeName string
	Name     string
	Type     string
	PkgPath  string
}

var ghostFieldRe = regexp.MustCompile(`^field\s+\(([A-Za-z_][A-Za-z0-9_]*)\)\s+([A-Za-z_][A-Za-z0-9_]*)\s+(\S+)$`)

// ghostField looks up a ghost field of the named type t (declared in t's package).
func (p *Program) ghostField(t types.Type, name string) *GhostField {
	if pt, isPtr := t.(*types.Pointer); isPtr {
		t = pt.Elem() // ghost fields of a struct type are reached through pointers to it
	}
	nt, ok := t.(*types.Named)
	if !ok || nt.Obj().Pkg() == nil {
		return nil
	}
	for _, cf := range p.files {
		if cf.PkgPath != nt.Obj().Pkg().Path() {
			continue
		}
		for _, g := range cf.Ghosts {
			m := ghostFieldRe.FindStringSubmatch(strings.TrimSpace(g))
			if m != nil && m[1] == nt.Obj().Name() && m[2] == name {
				return &GhostField{TypeName: m[1], Name: m[2], Type: m[3], PkgPath: cf.PkgPath}
			}
		}
	}
	return nil
}

func (p *Program) ghostFunc(pkgPath, name string) *GhostFunc {
	for _, cf := range p.files {
		if cf.PkgPath != pkgPath {
			continue
		}
		for _, g := range cf.Ghosts {
			m := ghostRe.FindStringSubmatch(strings.TrimSpace(g))
			if m == nil || m[1] != name {
				continue
			}
			gf := &GhostFunc{Name: m[1], Result: m[3]}
			for _, a := range strings.Split(m[2], ",") {
				if a = strings.TrimSpace(a); a != "" {
					gf.Params = append(gf.Params, a)
				}
			}
			return gf
		}
	}
	return nil
}

func (p *Program) typesPkg(path string) *types.Package {
	if pk, ok := p.allPkgs[path]; ok {
		return pk.Types
	}
	return nil
}

func (p *Program) globalFor(v *types.Var) *ssa.Global { return p.globals[v] }

// fieldArrID numbers the array-typed struct fields that are modelled as backing-store rows.
func (p *Program) fieldArrID(key string) int {
	if p.fieldArrs == nil {
		p.fieldArrs = map[string]int{}
	}
	if id, ok := p.fieldArrs[key]; ok {
		return id
	}
	id := len(p.fieldArrs)
	p.fieldArrs[key] = id
	return id
}

func (p *Program) typeID(t types.Type) int {
	k := typeKey(t)
	if id, ok := p.typeIDs[k]; ok {
		return id
	}
	id := len(p.typeIDs) + 1
	p.typeIDs[k] = id
	return id
}

// findFunc looks a function up by its full string.
func (p *Program) findFunc(full string) *ssa.Function {
	var found *ssa.Function
	for fn := range ssautil.AllFunctions(p.ssaProg) {
		if fn.String() == full {
			if fn.Blocks != nil || found == nil {
				found = fn
			}
		}
	}
	return found
}

// readFile reads a source file, honouring the in-memory overlay used by the must-fail corpus.
func (p *Program) readFile(file string) ([]byte, error) {
	if b, ok := p.overlay[file]; ok {
		return b, nil
	}
	return os.ReadFile(file)
}

func (p *Program) lines(file string) []string {
	if l, ok := p.srcCache[file]; ok {
		return l
	}
	b, err := p.readFile(file)
	if err != nil {
		p.srcCache[file] = nil
		return nil
	}
	l := strings.Split(string(b), "\n")
	p.srcCache[file] = l
	return l
}

// srcAt returns the trimmed source line at pos (used in obligation names; never a line number).
func (p *Program) srcAt(pos token.Pos, dflt string) string {
	ps := p.fset.Position(pos)
	ls := p.lines(ps.Filename)
	if ps.Line-1 < 0 || ps.Line-1 >= len(ls) {
		return dflt
	}
	s := strings.TrimSpace(ls[ps.Line-1])
	if i := strings.Index(s, "//"); i > 0 {
		s = strings.TrimSpace(s[:i])
	}
	if len(s) > 70 {
		s = s[:70]
	}
	return s
}

func (p *Program) srcText(from, to token.Pos) string {
	a, b := p.fset.Position(from), p.fset.Position(to)
	data, err := p.readFile(a.Filename)
	if err != nil || a.Offset > len(data) || b.Offset > len(data) || a.Offset > b.Offset {
		return ""
	}
	return string(data[a.Offset:b.Offset])
}

// anchorHit reports whether the cut for the anchored statement is to be taken before instruction i of block b.
// With before=false the cut is after the last instruction of the statement, with before=true
// in front of its first instruction.
func (p *Program) anchorHit(fn *ssa.Function, anchor string, before bool, b *ssa.BasicBlock, i int) bool {
	key := fmt.Sprintf("%s|%v|%s", fn.String(), before, anchor)
	loc, ok := p.anchors[key]
	if !ok {
		loc = [2]int{-1, -1}
		occ := 1
		if i := strings.IndexByte(anchor, 0); i >= 0 {
			occ, _ = strconv.Atoi(anchor[i+1:])
			anchor = anchor[:i]
		}
		if syn := fn.Syntax(); syn != nil {
			var stmt ast.Stmt
			seen := 0
			ast.Inspect(syn, func(n ast.Node) bool {
				if stmt != nil {
					return false
				}
				if s, ok := n.(ast.Stmt); ok {
					if _, isBlock := s.(*ast.BlockStmt); !isBlock {
						txt := p.srcText(s.Pos(), s.End())
						if strings.HasPrefix(normWS(txt), normWS(anchor)) {
							seen++
							if seen == occ {
								stmt = s
								return false
							}
						}
					}
				}
				return true
			})
			if stmt != nil {
				for _, blk := range fn.Blocks {
					for k, ins := range blk.Instrs {
						if _, isDbg := ins.(*ssa.DebugRef); isDbg {
							continue
						}
						if _, isPhi := ins.(*ssa.Phi); isPhi {
							continue
						}
						ps := ins.Pos()
						if ps.IsValid() && ps >= stmt.Pos() && ps < stmt.End() {
							if before {
								if loc[0] < 0 {
									loc = [2]int{blk.Index, k}
								}
							} else if blk.Index > loc[0] || (blk.Index == loc[0] && k+1 > loc[1]) {
								loc = [2]int{blk.Index, k + 1}
							}
						}
					}
				}
				// skip trailing DebugRefs belonging to the statement
				if loc[0] >= 0 && !before {
					blk := fn.Blocks[loc[0]]
					for loc[1] < len(blk.Instrs)-1 {
						if d, ok := blk.Instrs[loc[1]].(*ssa.DebugRef); ok && d.Pos() >= stmt.Pos() && d.Pos() < stmt.End() {
							loc[1]++
							continue
						}
						break
					}
				}
			}
		}
		p.anchors[key] = loc
	}
	return loc[0] == b.Index && loc[1] == i
}

func (p *Program) anchorExists(fn *ssa.Function, anchor string, before bool) bool {
	p.anchorHit(fn, anchor, before, fn.Blocks[0], -5)
	return p.anchors[fmt.Sprintf("%s|%v|%s", fn.String(), before, anchor)][0] >= 0
}

func normWS(s string) string { return strings.Join(strings.Fields(s), " ") }

