package main

// Symbolic values: every Go value is a typed vector of SMT leaves (shape is derived from
// the Go type). Memory is a component heap: one SMT array per (root type, leaf path).

import (
	"fmt"
	"go/types"
	"regexp"
	"strconv"
	"strings"

	"golang.org/x/tools/go/ssa"
)

type Leaf struct {
	Path string
	S    Sort
	Typ  types.Type // Go type of the leaf (basic, pointer, ...), nil for slice components
	Role string     // "", "ref", "off", "len", "cap"
}

// PtrInfo carries generator-time information about where a pointer points.
// A nil PtrInfo means: object space "H", root = pointee type, no path.
type PtrInfo struct {
	Space  string     // "H" object heap, "E" slice/array backing store, "G" global
	Root   types.Type // type that names the heap family (struct type, or element type for E)
	Prefix string     // accumulated static path, e.g. ".f[].g"
	Idxs   []T        // one per "[]" in Prefix
	Glob   *ssa.Global
}

type Val struct {
	Typ types.Type
	L   []T
	P   *PtrInfo   // for pointers
	Fn  *ssa.Function // for function values / closures
	Bind []Val
	Tup []Val // for tuples
}

func typeKey(t types.Type) string {
	return types.TypeString(t, func(p *types.Package) string { return p.Path() })
}

func (e *Enc) idxSort() Sort { return e.sortOfBasic(types.Typ[types.Int]) }

func (e *Enc) sortOfBasic(b *types.Basic) Sort {
	info := b.Info()
	switch {
	case info&types.IsBoolean != 0:
		return BoolS
	case info&types.IsInteger != 0:
		w := intWidth(b)
		switch e.mode {
		case "int":
			return IntS
		case "mix":
			if b.Kind() == types.Int || b.Kind() == types.Uint || b.Kind() == types.UntypedInt {
				return IntS
			}
			return BV(w)
		default:
			return BV(w)
		}
	case info&types.IsFloat != 0:
		if b.Kind() == types.Float32 {
			return BV(32)
		}
		return BV(64)
	case info&types.IsString != 0:
		return RealS
	}
	if b.Kind() == types.UnsafePointer {
		return IntS
	}
	if b.Kind() == types.UntypedNil {
		return IntS
	}
	panic(unsupported("basic type " + b.String()))
}

func intWidth(b *types.Basic) int {
	switch b.Kind() {
	case types.Int8, types.Uint8:
		return 8
	case types.Int16, types.Uint16:
		return 16
	case types.Int32, types.Uint32:
		return 32
	}
	return 64
}

func isUnsigned(t types.Type) bool {
	b, ok := t.Underlying().(*types.Basic)
	return ok && b.Info()&types.IsUnsigned != 0
}
func isInteger(t types.Type) bool {
	b, ok := t.Underlying().(*types.Basic)
	return ok && b.Info()&types.IsInteger != 0
}
func isFloat(t types.Type) bool {
	b, ok := t.Underlying().(*types.Basic)
	return ok && b.Info()&types.IsFloat != 0
}
func isString(t types.Type) bool {
	b, ok := t.Underlying().(*types.Basic)
	return ok && b.Info()&types.IsString != 0
}
func isBool(t types.Type) bool {
	b, ok := t.Underlying().(*types.Basic)
	return ok && b.Info()&types.IsBoolean != 0
}

type unsupported string

func (u unsupported) Error() string { return "unsupported: " + string(u) }

func wrapArr(s Sort, idx Sort, n int) Sort {
	for i := 0; i < n; i++ {
		s = ArrS(idx, s)
	}
	return s
}

// opaqueTypes are modelled as uninterpreted values with equality only (their contents are never
// inspected by code under contract). Listed in every evidence file as an assumption.
var opaqueTypes = map[string]bool{
	"github.com/oklog/ulid/v2.ULID": true,
}

// shape returns the leaves of a Go type.
func (e *Enc) shape(t types.Type) []Leaf {
	k := typeKey(t)
	if s, ok := e.shapes[k]; ok {
		return s
	}
	var out []Leaf
	if opaqueTypes[k] {
		// identity-only model: an uninterpreted value with equality (used for map keys / comparisons)
		out = []Leaf{{"", IntS, nil, "opaque"}}
		e.shapes[k] = out
		return out
	}
	if strings.HasSuffix(k, "internal/verifspec.Bits256") {
		// ghost bit-stream window: a 256-bit vector (see bsAppend / bsTake in contracts)
		out = []Leaf{{"", BV(e.bitsWidth()), nil, "bits256"}}
		e.shapes[k] = out
		return out
	}
	switch u := t.Underlying().(type) {
	case *types.Basic:
		out = []Leaf{{"", e.sortOfBasic(u), t, ""}}
	case *types.Pointer, *types.Interface, *types.Map, *types.Chan, *types.Signature:
		out = []Leaf{{"", IntS, t, ""}}
	case *types.Slice:
		is := e.idxSort()
		out = []Leaf{{".ref", IntS, nil, "ref"}, {".off", is, nil, "off"}, {".len", is, nil, "len"}, {".cap", is, nil, "cap"}}
	case *types.Struct:
		for i := 0; i < u.NumFields(); i++ {
			f := u.Field(i)
			for _, l := range e.shape(f.Type()) {
				out = append(out, Leaf{"." + fieldName(u, i) + l.Path, l.S, l.Typ, l.Role})
			}
		}
	case *types.Array:
		is := e.idxSort()
		for _, l := range e.shape(u.Elem()) {
			out = append(out, Leaf{"[]" + l.Path, ArrS(is, l.S), l.Typ, l.Role})
		}
	case *types.Tuple:
		for i := 0; i < u.Len(); i++ {
			for _, l := range e.shape(u.At(i).Type()) {
				out = append(out, Leaf{fmt.Sprintf("#%d", i) + l.Path, l.S, l.Typ, l.Role})
			}
		}
	case *types.TypeParam:
		panic(unsupported("type parameter " + t.String()))
	default:
		panic(unsupported("type " + t.String()))
	}
	e.shapes[k] = out
	return out
}

func fieldName(s *types.Struct, i int) string {
	n := s.Field(i).Name()
	if n == "_" {
		return fmt.Sprintf("_%d", i)
	}
	return n
}

// fieldRange returns the leaf index range of field i within struct type st.
func (e *Enc) fieldRange(st *types.Struct, i int) (int, int) {
	off := 0
	for j := 0; j < i; j++ {
		off += len(e.shape(st.Field(j).Type()))
	}
	return off, off + len(e.shape(st.Field(i).Type()))
}

func (e *Enc) zeroLeaf(l Leaf) T {
	s := l.S
	n := 0
	for s.K == SArray {
		s = *s.Elem
		n++
	}
	var z T
	switch s.K {
	case SBool:
		z = False
	case SBV, SInt, SReal:
		z = IntLit64(s, 0)
	}
	is := e.idxSort()
	for i := 0; i < n; i++ {
		as := ArrS(is, z.S)
		z = T{as, fmt.Sprintf("((as const %s) %s)", as, z.E)}
	}
	return z
}

func (e *Enc) zeroVal(t types.Type) Val {
	sh := e.shape(t)
	v := Val{Typ: t, L: make([]T, len(sh))}
	for i, l := range sh {
		v.L[i] = e.zeroLeaf(l)
	}
	return v
}

// freshVal declares unconstrained constants for every leaf of t and emits type invariants.
func (e *Enc) freshVal(t types.Type, hint string) Val {
	if tup, ok := t.(*types.Tuple); ok {
		v := Val{Typ: t}
		for i := 0; i < tup.Len(); i++ {
			v.Tup = append(v.Tup, e.freshVal(tup.At(i).Type(), fmt.Sprintf("%s_%d", hint, i)))
		}
		return v
	}
	sh := e.shape(t)
	v := Val{Typ: t, L: make([]T, len(sh))}
	for i, l := range sh {
		v.L[i] = e.declare(l.S, hint+sanitize(l.Path))
	}
	e.assumeTypeInv(v)
	return v
}

func sanitize(s string) string {
	r := strings.NewReplacer(".", "_", "[", "_", "]", "", "#", "_", "*", "p", "/", "_", " ", "_", "(", "_", ")", "_", "$", "_", ",", "_", "{", "_", "}", "_", ";", "_", "|", "_", "-", "_", "'", "_", "\"", "_", "<", "_", ">", "_", "=", "_", "&", "_", "+", "_", ":", "_")
	return r.Replace(s)
}

// rangeInv returns the range constraint for an integer leaf in Int sort.
func rangeInv(t T, ty types.Type) T {
	b, ok := ty.Underlying().(*types.Basic)
	if !ok || t.S.K != SInt || b.Info()&types.IsInteger == 0 {
		return True
	}
	w := intWidth(b)
	if b.Info()&types.IsUnsigned != 0 {
		return And(T{BoolS, app("<=", "0", t.E)}, T{BoolS, app("<", t.E, pow2(w).String())})
	}
	return And(T{BoolS, app("<=", "(- "+pow2(w-1).String()+")", t.E)}, T{BoolS, app("<", t.E, pow2(w-1).String())})
}

// assumeTypeInv emits the representation invariants of a freshly introduced value.
func (e *Enc) assumeTypeInv(v Val) {
	if v.Tup != nil {
		for _, x := range v.Tup {
			e.assumeTypeInv(x)
		}
		return
	}
	sh := e.shape(v.Typ)
	for i, l := range sh {
		if i >= len(v.L) {
			break
		}
		t := v.L[i]
		if t.S.K == SArray {
			continue // element invariants are assumed on read
		}
		e.assumeLeafInv(t, l, v.L, sh, i)
	}
}

func (e *Enc) assumeLeafInv(t T, l Leaf, all []T, sh []Leaf, i int) {
	switch l.Role {
	case "ref":
		// slice header: ref, off, len, cap follow
		off, ln, cp := all[i+1], all[i+2], all[i+3]
		if off.S.K == SArray {
			return
		}
		e.assert(And(e.cmpS("<=", IntLit64(IntS, 0), t), T{BoolS, app("<", t.E, e.top().E)}))
		z := IntLit64(off.S, 0)
		// (backing-array positions are small numbers: off + cap cannot wrap around)
		e.assert(And(e.sle(z, off), e.sle(off, e.maxLen()), e.sle(z, ln), e.sle(ln, cp), e.sle(cp, e.maxLen())))
		e.assert(Implies(Eq(t, IntLit64(IntS, 0)), And(Eq(cp, z), Eq(off, z))))
		return
	case "off", "len", "cap":
		return
	}
	if l.Typ == nil {
		return
	}
	switch u := l.Typ.Underlying().(type) {
	case *types.Basic:
		if t.S.K == SInt && u.Info()&types.IsInteger != 0 {
			e.assert(rangeInv(t, l.Typ))
		}
		if u.Info()&types.IsString != 0 {
			e.assert(T{BoolS, app("<=", "0.0", t.E)})
		}
	case *types.Pointer, *types.Map:
		e.assert(And(e.cmpS("<=", IntLit64(IntS, 0), t), T{BoolS, app("<", t.E, e.top().E)}))
	}
}

func (e *Enc) maxLen() T {
	return IntLit(e.idxSort(), pow2(40))
}

// signed <= on index sort
func (e *Enc) sle(a, b T) T {
	if a.S.K == SBV {
		return T{BoolS, app("bvsle", a.E, b.E)}
	}
	return T{BoolS, app("<=", a.E, b.E)}
}
func (e *Enc) slt(a, b T) T {
	if a.S.K == SBV {
		return T{BoolS, app("bvslt", a.E, b.E)}
	}
	return T{BoolS, app("<", a.E, b.E)}
}
func (e *Enc) cmpS(op string, a, b T) T { return T{BoolS, app(op, a.E, b.E)} }

func (e *Enc) iteVal(c T, a, b Val) Val {
	if a.Tup != nil {
		r := Val{Typ: a.Typ}
		for i := range a.Tup {
			r.Tup = append(r.Tup, e.iteVal(c, a.Tup[i], b.Tup[i]))
		}
		return r
	}
	if len(a.L) != len(b.L) {
		panic(unsupported(fmt.Sprintf("ite of differently shaped values %v / %v", a.Typ, b.Typ)))
	}
	r := Val{Typ: a.Typ, L: make([]T, len(a.L)), Fn: a.Fn, Bind: a.Bind}
	for i := range a.L {
		r.L[i] = Ite(c, a.L[i], b.L[i])
	}
	r.P = e.mergePtrInfo(c, a.P, b.P)
	return r
}

func (e *Enc) mergePtrInfo(c T, a, b *PtrInfo) *PtrInfo {
	if a == nil && b == nil {
		return nil
	}
	if a == nil || b == nil {
		// one side is plain (e.g. nil constant): keep the structured one
		if a == nil {
			return b
		}
		return a
	}
	if a.Space != b.Space || a.Prefix != b.Prefix || a.Glob != b.Glob || !types.Identical(a.Root, b.Root) || len(a.Idxs) != len(b.Idxs) {
		panic(unsupported("merge of pointers into different regions"))
	}
	r := &PtrInfo{Space: a.Space, Root: a.Root, Prefix: a.Prefix, Glob: a.Glob}
	for i := range a.Idxs {
		r.Idxs = append(r.Idxs, Ite(c, a.Idxs[i], b.Idxs[i]))
	}
	return r
}

// ---- heap ----

type State struct {
	H  map[string]T
	ep *Epoch // values of components not touched since the last total havoc
}

func (s *State) clone() *State {
	n := &State{H: make(map[string]T, len(s.H)), ep: s.ep}
	for k, v := range s.H {
		n.H[k] = v
	}
	return n
}

// Epoch supplies the value of heap components on first touch. The function-entry epoch is
// e.ep0; a total havoc (unknown callee) starts a new epoch; joins merge epochs lazily.
type Epoch struct {
	id    int
	vals  map[string]T
	parts []*Epoch // merged epoch: ite over guards
	gs    []T
	// partial havoc: components of the listed types are fresh, everything else is inherited from parent
	parent *Epoch
	reach  map[string]bool
}

// heapKeyType extracts the type component of a heap key ("H|<type>|path", "E|...", "M|...").
func heapKeyType(key string) (space, typ string) {
	i := strings.Index(key, "|")
	if i < 0 {
		return "", ""
	}
	rest := key[i+1:]
	j := strings.LastIndex(rest, "|")
	if j < 0 {
		return key[:i], rest
	}
	return key[:i], rest[:j]
}

func (ep *Epoch) inherits(key string) bool {
	if ep.parent == nil {
		return false
	}
	if strings.HasPrefix(key, "!") {
		return true
	}
	sp, ty := heapKeyType(key)
	if sp == "G" {
		return false // package-level variables may be written by any callee
	}
	if sp == "X" {
		return true // ghost state of interface values: unreachable without an interface-typed argument
	}
	return !ep.reach[sp+"|"+ty]
}

func (e *Enc) newEpoch() *Epoch {
	e.epochCtr++
	return &Epoch{id: e.epochCtr, vals: map[string]T{}}
}

func (e *Enc) epochGet(ep *Epoch, key string, s Sort) T {
	if e.isConstGlobal(key) && ep != e.ep0 {
		return e.epochGet(e.ep0, key, s)
	}
	if t, ok := ep.vals[key]; ok {
		return t
	}
	if ep.inherits(key) {
		t := e.epochGet(ep.parent, key, s)
		ep.vals[key] = t
		return t
	}
	if strings.HasPrefix(key, "!called|") && ep.parts == nil {
		// ghost call flags start out false (and are carried across total havocs by havocAll)
		return False
	}
	if strings.HasPrefix(key, "!ncalls|") && ep.parts == nil {
		return IntLit64(IntS, 0)
	}
	var t T
	if ep.parts == nil {
		qd := e.quantDepth
		e.quantDepth = 0 // heap components are global constants even when first touched under a quantifier
		t = e.declare(s, fmt.Sprintf("H%d_%s", ep.id, sanitize(key)))
		e.quantDepth = qd
		if key == "!top" {
			e.emit("(assert\t(< 0 " + t.E + "))")
		}
		if e.isConstGlobal(key) && s.K == SInt {
			// package-level error values: non-nil and pairwise distinct
			e.emit("(assert\t(< 0 " + t.E + "))")
			for _, o := range e.constGlobs {
				e.emit("(assert\t(not (= " + t.E + " " + o.E + ")))")
			}
			e.constGlobs = append(e.constGlobs, t)
		}
	} else {
		t = e.epochGet(ep.parts[len(ep.parts)-1], key, s)
		for i := len(ep.parts) - 2; i >= 0; i-- {
			t = Ite(ep.gs[i], e.epochGet(ep.parts[i], key, s), t)
		}
		t = e.define(t, "He")
	}
	ep.vals[key] = t
	return t
}

func (e *Enc) top() T {
	return e.heapGet(e.st, "!top", IntS)
}

func (e *Enc) heapGet(st *State, key string, s Sort) T {
	if t, ok := st.H[key]; ok {
		return t
	}
	// first touch: the component's value in the state's epoch
	e.heapSorts[key] = s
	t := e.epochGet(st.ep, key, s)
	st.H[key] = t
	return t
}

func countIdx(p string) int { return strings.Count(p, "[]") }

func (e *Enc) ptrParts(p Val) (space string, root types.Type, prefix string, idxs []T, glob *ssa.Global) {
	if p.P != nil {
		return p.P.Space, p.P.Root, p.P.Prefix, p.P.Idxs, p.P.Glob
	}
	pt, ok := p.Typ.Underlying().(*types.Pointer)
	if !ok {
		panic(unsupported("dereference of non-pointer " + p.Typ.String()))
	}
	return "H", pt.Elem(), "", nil, nil
}

func heapKey(space string, root types.Type, glob *ssa.Global, path string) string {
	if space == "G" {
		return "G|" + glob.Pkg.Pkg.Path() + "." + glob.Name() + "|" + path
	}
	return space + "|" + typeKey(root) + "|" + path
}

// loadAt reads the value of type t that p points to, in state st.
func (e *Enc) loadAt(st *State, p Val, t types.Type) Val {
	space, root, prefix, idxs, glob := e.ptrParts(p)
	sh := e.shape(t)
	v := Val{Typ: t, L: make([]T, len(sh))}
	is := e.idxSort()
	for i, l := range sh {
		path := prefix + l.Path
		key := heapKey(space, root, glob, path)
		base := l.S
		for base.K == SArray {
			base = *base.Elem
		}
		var cur T
		if k2, r2, ok := e.fieldArray(space, root, path, len(idxs), p.L[0], l); ok {
			// an array-typed field of an object lives in the slice backing store (so it can be sliced)
			cur = Select(e.heapGet(st, k2, ArrS(IntS, ArrS(is, base))), r2)
		} else if space == "G" {
			cur = e.heapGet(st, key, wrapArr(base, is, countIdx(path)))
		} else {
			h := e.heapGet(st, key, ArrS(IntS, wrapArr(base, is, countIdx(path))))
			cur = Select(h, p.L[0])
		}
		for _, ix := range idxs {
			cur = Select(cur, ix)
		}
		v.L[i] = cur
	}
	// loaded values satisfy their type invariants
	named := Val{Typ: t, L: make([]T, len(sh))}
	for i := range sh {
		if v.L[i].S.K == SArray || len(v.L[i].E) < 24 {
			named.L[i] = v.L[i]
		} else {
			named.L[i] = e.define(v.L[i], "ld")
		}
	}
	e.assumeTypeInv(named)
	return named
}

// storeAt writes v through p in state st.
func (e *Enc) storeAt(st *State, p Val, v Val) {
	space, root, prefix, idxs, glob := e.ptrParts(p)
	sh := e.shape(v.Typ)
	is := e.idxSort()
	for i, l := range sh {
		path := prefix + l.Path
		key := heapKey(space, root, glob, path)
		base := l.S
		for base.K == SArray {
			base = *base.Elem
		}
		if k2, r2, ok := e.fieldArray(space, root, path, len(idxs), p.L[0], l); ok {
			h2 := e.heapGet(st, k2, ArrS(IntS, ArrS(is, base)))
			st.H[k2] = e.define(Store(h2, r2, v.L[i]), "H")
			e.markWrite(k2)
			e.checkFreshWrite(k2, r2)
			continue
		}
		var h T
		if space == "G" {
			h = e.heapGet(st, key, wrapArr(base, is, countIdx(path)))
		} else {
			h = e.heapGet(st, key, ArrS(IntS, wrapArr(base, is, countIdx(path))))
		}
		// build nested store
		var chain []T // arrays along the path
		var keys []T
		cur := h
		if space != "G" {
			chain = append(chain, cur)
			keys = append(keys, p.L[0])
			cur = Select(cur, p.L[0])
		}
		for _, ix := range idxs {
			chain = append(chain, cur)
			keys = append(keys, ix)
			cur = Select(cur, ix)
		}
		nv := v.L[i]
		for j := len(chain) - 1; j >= 0; j-- {
			nv = Store(chain[j], keys[j], nv)
		}
		st.H[key] = e.define(nv, "H")
		e.markWriteRef(key)
		if space != "G" {
			e.checkFreshWrite(key, p.L[0])
		}
		if e.writes != nil && space != "G" {
			// remember which object was written (used to frame loop havocs)
			if e.writeRefs == nil {
				e.writeRefs = map[string]map[string]bool{}
			}
			if e.writeRefs[key] == nil {
				e.writeRefs[key] = map[string]bool{}
			}
			e.writeRefs[key][p.L[0].E] = true
		}
	}
}

// alloc returns a fresh reference.
func (e *Enc) alloc(st *State) T {
	top := e.heapGet(st, "!top", IntS)
	r := e.define(top, "ref")
	st.H["!top"] = e.define(T{IntS, app("+", top.E, "1")}, "top")
	e.markWrite("!top")
	return r
}

// sliceElemPtr returns a pointer to element i of slice s (no bounds obligation here).
func (e *Enc) sliceElemPtr(s Val, i T) Val {
	elem := s.Typ.Underlying().(*types.Slice).Elem()
	idx := e.elemIndex(s.L[1], i)
	return Val{Typ: types.NewPointer(elem), L: []T{s.L[0]}, P: &PtrInfo{Space: "E", Root: elem, Prefix: "[]", Idxs: []T{idx}}}
}

// elemIndex is the backing-array index of element i of a slice starting at off. With Int
// indices it is wrapped in the function symbol ix (axiom: ix(o,i) = o+i, instantiated per term)
// so that quantified facts about s[i] match syntactically in the solvers' E-matching instead of
// depending on how `off + i` gets normalised.
func (e *Enc) elemIndex(off, i T) T {
	if off.E == IntLit64(off.S, 0).E {
		return i
	}
	if off.S.K != SInt {
		return e.addIdx(off, i)
	}
	if !e.ufDecl["ix"] {
		e.ufDecl["ix"] = true
		e.emit("(declare-fun ix (Int Int) Int)")
		e.emit("(assert\t(forall ((ixo Int) (ixi Int)) (! (= (ix ixo ixi) (+ ixo ixi)) :pattern ((ix ixo ixi)))))")
	}
	// a resliced slice s[c:] has offset (+ base c): index through the base so that facts about
	// s[c+i] and s[c:][i] use the same term ix(base, c+i)
	if base, c, ok := splitPlusConst(off.E); ok {
		if v, isL := isLit(i); isL && v.IsInt64() {
			return T{IntS, app("ix", base, IntLit64(IntS, c+v.Int64()).E)}
		}
		return T{IntS, app("ix", base, app("+", IntLit64(IntS, c).E, i.E))}
	}
	return T{IntS, app("ix", off.E, i.E)}
}

var plusConstRe = regexp.MustCompile(`^\(\+ ([^() ]+) (\d+)\)$`)

// splitPlusConst recognises the term (+ atom literal).
func splitPlusConst(t string) (string, int64, bool) {
	m := plusConstRe.FindStringSubmatch(t)
	if m == nil {
		return "", 0, false
	}
	c, err := strconv.ParseInt(m[2], 10, 64)
	if err != nil {
		return "", 0, false
	}
	return m[1], c, true
}

func (e *Enc) addIdx(a, b T) T {
	if a.E == IntLit64(a.S, 0).E {
		return b
	}
	if a.S.K == SBV {
		return T{a.S, app("bvadd", a.E, b.E)}
	}
	// fold (+ (+ x c1) c2)
	if base, c1, ok := splitPlusConst(a.E); ok {
		if v, isL := isLit(b); isL && v.IsInt64() && v.Sign() >= 0 {
			return T{a.S, app("+", base, IntLit64(IntS, c1+v.Int64()).E)}
		}
	}
	return T{a.S, app("+", a.E, b.E)}
}
func (e *Enc) subIdx(a, b T) T {
	if b.E == IntLit64(b.S, 0).E {
		return a
	}
	if a.S.K == SBV {
		return T{a.S, app("bvsub", a.E, b.E)}
	}
	return T{a.S, app("-", a.E, b.E)}
}

// fieldArray redirects a leaf that is a whole array-typed field (scalar elements) of an object
// in the H space to the row of the slice backing store (E space) in which such arrays are
// modelled, so that `obj.buf[i:]` yields an ordinary slice. The row's reference is derived
// injectively from the object's reference and the field: -(ref*1024 + fieldNo + 1).
func (e *Enc) fieldArray(space string, root types.Type, path string, nIdx int, ref T, l Leaf) (string, T, bool) {
	if space != "H" || nIdx != 0 || !strings.HasSuffix(path, "[]") || strings.Count(path, "[]") != 1 || l.Typ == nil {
		return "", T{}, false
	}
	if _, ok := l.Typ.Underlying().(*types.Basic); !ok {
		return "", T{}, false
	}
	return "E|" + typeKey(l.Typ) + "|[]", e.fieldArrayRef(root, path, ref), true
}

func (e *Enc) fieldArrayRef(root types.Type, path string, ref T) T {
	id := e.prog.fieldArrID(typeKey(root) + path)
	mk := fmt.Sprintf("%s#%d", ref.E, id)
	if n, ok := e.farrMemo[mk]; ok {
		return T{IntS, n}
	}
	// the name is memoized so that the same row is recognised across a loop (farrBase: see discoverWrites)
	save := e.discovery
	e.discovery = 0
	t := e.define(T{IntS, fmt.Sprintf("(- (+ (* %s 1024) %d))", ref.E, id+1)}, "farr")
	e.discovery = save
	if e.farrMemo == nil {
		e.farrMemo, e.farrBase = map[string]string{}, map[string]string{}
	}
	e.farrMemo[mk] = t.E
	e.farrBase[t.E] = ref.E
	return t
}

// bitsWidth is the width of the ghost bit-stream window (verifspec.Bits256): 256 bits, or what
// the function under contract asks for with `opt bitswidth=N` (its preconditions on the
// primitives, stated with bsCap(), then bound what may be written).
func (e *Enc) bitsWidth() int {
	if e.contract != nil {
		if v := e.contract.Opts["bitswidth"]; v != "" {
			if n, err := strconv.Atoi(v); err == nil && n >= 64 && n <= 1024 {
				return n
			}
		}
	}
	return 256
}
